def run(path):
    raise SystemExit(2)
