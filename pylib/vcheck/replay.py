"""./check replay <file>: re-run one recorded case against /repo's current working tree."""
import os, sys, json, subprocess, shutil
from . import ws, batch
from .ws import log


def _specs_of(rec):
    if rec.get("kind") in ("group",) or (rec.get("kind") == "types" and "group" in rec):
        return [m["spec"] for m in rec["group"]]
    if "spec" in rec and rec["spec"]:
        return [rec["spec"]]
    return []


def run(path):
    with open(path) as f:
        rec = json.load(f)
    prop = rec.get("property")
    kind = rec.get("kind", "case")
    if prop is None:
        print("not a replay record")
        return 2
    # in-process engine
    if (prop in ("C11", "C12", "C18")) or (prop == "C15" and kind == "compile") or (prop == "C04" and kind == "runtime") or (prop == "C16" and kind == "history"):
        tool = "frontnc" if rec.get("feature_colored") is False else "front"
        if not ws.build_tools((tool,)):
            return 2
        wd = os.path.join(ws.WORK, "replaytmp")
        os.makedirs(wd, exist_ok=True)
        p = subprocess.run([ws.tool(tool), "replay", path, "--workdir", wd], stdout=subprocess.PIPE, stderr=subprocess.PIPE, text=True, timeout=1800)
        shutil.rmtree(wd, ignore_errors=True)
        if p.returncode == 1:
            print("VIOLATION property=%s replay=%s" % (prop, path))
            print(p.stdout.strip()[:2000])
            return 1
        if p.returncode == 0:
            print("replay: property held for the recorded case")
            return 0
        log(p.stderr[-1000:])
        return 2
    specs = _specs_of(rec)
    if not specs:
        # records without a grammar spec (process-level routes): re-run the quick check of that property
        log("replay: record carries no grammar spec; re-running the quick check of %s" % prop)
        import sys as _sys
        return _sys.modules["vcheck.main"].main([prop, "quick"], locked=True)
    if not ws.build_tools(("genner",)):
        return 2
    # one-grammar (or one-group) batch built with the tree's generator
    specs2 = []
    for i, s in enumerate(specs):
        s = dict(s)
        fl = dict(s.get("flags") or {})
        # models in replay records already contain the wrapper rules
        if any(("Normal" in r and r["Normal"]["name"].startswith("W_")) for r in s["model"]["rules"]):
            fl["no_wrappers"] = True
        s["flags"] = fl
        s["id"] = "r%04d" % i
        specs2.append(s)
    out = os.path.join(ws.WS, "batch", "replay")
    shutil.rmtree(out, ignore_errors=True)
    os.makedirs(out)
    sf = os.path.join(ws.WORK, "replay_specs.json")
    with open(sf, "w") as f:
        json.dump(specs2, f)
    env = dict(os.environ)
    env["VERIF_REPO_PATH"] = ws.REPO
    if prop == "C03":
        # compile-only records are rebuilt as a 2024-edition crate (the stricter of the two editions the check uses)
        env.setdefault("VERIF_EDITION", "2024")
    plan = "macro" if any((s.get("flags") or {}).get("via_macro") for s in specs2) else "replay"
    p = subprocess.run([ws.tool("genner"), "one", "--spec", sf, "--out", out, "--plan", plan, "--crates", "1"], env=env, stdout=subprocess.PIPE, stderr=subprocess.PIPE, text=True)
    if p.returncode != 0:
        log(p.stderr[-2000:])
        return 2
    with open(os.path.join(out, "failures.json")) as f:
        fails = json.load(f)
    if fails:
        print("VIOLATION property=%s replay=%s" % (prop, path))
        print("the code generator rejects / panics on the recorded grammar: %s" % fails[0]["message"][:300])
        return 1
    rc, errors, other = batch.build(out)
    if errors:
        print("VIOLATION property=%s replay=%s" % (prop, path))
        for g, e in errors.items():
            print("generated code does not compile: %s" % e[0][:300])
        return 1
    if rc != 0:
        log("replay batch build failed: %s" % other[:3])
        return 2
    if prop == "C03":
        print("replay: the recorded grammar compiles (with its exact-type assertions)")
        return 0
    partials, hangs, died = batch.run_wave(prop, out, 1, 1, 64, extra=("--replay", path))
    if hangs:
        print("VIOLATION property=%s replay=%s" % (prop, path))
        print("the recorded case does not terminate")
        return 1
    if died or not partials:
        log("replay process died")
        return 2
    m = batch.merge(partials)
    # show where the generated code is, formatted, for inspection
    for c in batch.crates_of(out):
        for fn in sorted(os.listdir(os.path.join(out, c, "src"))):
            if fn.startswith("r") and fn.endswith(".rs") and "_glue" not in fn:
                src = os.path.join(out, c, "src", fn)
                pretty = os.path.join(ws.WORK, "replay_" + fn)
                shutil.copyfile(src, pretty)
                subprocess.run(["rustfmt", "--edition", "2021", pretty], stdout=subprocess.DEVNULL, stderr=subprocess.DEVNULL)
                log("generated code (formatted): %s" % pretty)
    if m["violations"]:
        print("VIOLATION property=%s replay=%s" % (prop, path))
        for v in m["violations"][:3]:
            print(json.dumps({k: v.get(k) for k in ("message", "expected", "observed")}, ensure_ascii=False)[:1500])
        return 1
    print("replay: property held for the recorded case (%d evaluation(s))" % m["evaluations"])
    return 0
