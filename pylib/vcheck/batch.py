"""Engine E1 "genbatch": generated grammars -> the tree's generator -> rustc -> run checks."""
import re, os, sys, json, time, subprocess, hashlib, shutil
from concurrent.futures import ThreadPoolExecutor
from . import ws
from .ws import log

# property -> (plan, quick settings, thorough settings)
#   count: grammars per wave, waves, cases per exported rule, max input length
PLANS = {
    "C01": dict(plan="core", quick=dict(count=192, waves=1, cases=400), thorough=dict(count=192, waves=12, cases=2000, max_len=160)),
    "C02": dict(plan="fields", quick=dict(count=192, waves=1, cases=400), thorough=dict(count=192, waves=6, cases=2000, max_len=160)),
    "C04": dict(plan="unicode", quick=dict(count=192, waves=1, cases=400), thorough=dict(count=192, waves=5, cases=1500, max_len=160)),
    "C08": dict(plan="ws", quick=dict(count=192, waves=1, cases=400), thorough=dict(count=192, waves=6, cases=2000, max_len=160)),
    "C09": dict(plan="pos", quick=dict(count=192, waves=1, cases=400), thorough=dict(count=192, waves=6, cases=2000, max_len=160)),
    "C10": dict(plan="errors", quick=dict(count=224, waves=1, cases=400), thorough=dict(count=192, waves=12, cases=2000, max_len=160)),
    "C14": dict(plan="hooks", quick=dict(count=192, waves=1, cases=400), thorough=dict(count=192, waves=12, cases=2000, max_len=160)),
    "C05": dict(plan="memo", quick=dict(count=256, waves=1, cases=400), thorough=dict(count=256, waves=10, cases=2000, max_len=160)),
    "C06": dict(plan="probes", quick=dict(count=192, waves=1, cases=400), thorough=dict(count=192, waves=6, cases=2000, max_len=160)),
    "C07": dict(plan="leftrec", quick=dict(count=192, waves=1, cases=400), thorough=dict(count=192, waves=12, cases=2000, max_len=160)),
    "C13": dict(plan="include", quick=dict(count=256, waves=1, cases=400), thorough=dict(count=256, waves=10, cases=2000, max_len=160)),
    "C20": dict(plan="sched", quick=dict(count=96, waves=1, cases=400), thorough=dict(count=128, waves=4, cases=5000, max_len=160)),
    "C19": dict(plan="mixed", quick=dict(count=192, waves=1, cases=400), thorough=dict(count=192, waves=5, cases=1500, max_len=160)),
}

RULES = {
    "C05": "metamorphic + histories: base grammars of profile 'memo' (shared-prefix alternatives, nullable rules, rules reached at one offset through several contexts, lookaheads calling rules, failing checks, externs) and, for half of the groups, profile 'memows' (skipping and non-skipping 'twin' callers of one offset-sensitive callee, heavy whitespace injection), each compiled in 4 variants (no rule / every rule / two random subsets of rules marked @memoize); for every generated input all variants must return the same ok flag and Debug tree and agree with the reference interpreter; plus generated histories (3-16 inputs, every second one an equal-length variant of its predecessor, re-parsed in a generated order with repetitions) on the all-memoized variant, parsed out of one reused buffer: every result equals the first-time result; every third group is generated with a user context type. Non-trivial = the oracle sees a memoized (rule, offset) evaluated >= 2 times in that parse (a cache hit must have happened), or a history with equal-length inputs; distinct (grammar group, rule, input) / distinct history.",
    "C06": "grammars of profile 'memo' with a zero-width @extern probe at the start of each memoized rule's body (half of the grammars: every rule memoized); observation: probe call log (name, remaining input) and recorded rule entries; oracle: packrat model = reference interpreter answering revisits of memoized (rule, offset) from a table. Checks: every user function call and every rule entry occurs at most as often as in the packrat model (successful and failing evaluations alike); all-memoized grammars: probe calls <= rules x (len + 1). Non-trivial = the plain PEG evaluation attempts some memoized (rule, offset) >= 2 times and the first attempt fails; distinct (grammar, rule, input).",
    "C07": "structured left-recursive grammars: direct struct style (recursive alternatives first / not first), enum-override style through non-memoized rules, two-level Expr/Term, exotic (recursive reference under lookahead / optional / through a nullable prefix), seeds that match the empty string, one-token growth steps, various callers ([E], {E ';'}, &E, shared-prefix alternatives), @position/@memoize/@no_skip_ws mixes, value-dependent @check functions on the growing rule in ~17 % of the grammars; oracles: (1) interpreter implementing seed-and-grow literally, (2) constructive oracle for `E = l:*E op r:Atom | ... | a:Atom`: input b x1..xn built from the operator list, expected tree folded left directly; termination by tracer fuel / nesting depth. Non-trivial = >= 2 growth steps, or a failing parse that entered the growth loop; distinct (grammar, rule, input).",
    "C13": "pairs (G, G') where G uses `>Rule` at random depths (inside [], {}, choices, other included bodies; skipping and non-skipping includers; included rules carrying @no_skip_ws/@memoize/@position/@check/@string) and G' is the model with every include replaced by the parenthesised body; compared: public type declarations (text before the private module, byte-equal), and for every input ok flag, Debug tree (positions included) and error position; G is also compared with the interpreter. Non-trivial = the included body was entered on that input inside a choice arm / optional / closure; distinct (grammar pair, rule, input).",
    "C20": "histories: for each grammar (profile 'memo' + left-recursive shapes + a sixth from profile 'unicode') generated lists of inputs are parsed, then re-parsed in a generated order with repetitions OUT OF ONE REUSED BUFFER (same address, for equal-length inputs the same address range), each result must equal its first-time result; schedules: generated rounds of 2-4 (grammar, rule) pairs x 8-40 inputs (every third an equal-length variant of its neighbour) are parsed sequentially (reference) and then by 2-16 threads (512 MB stacks, each parsing out of its own reused buffer) under a generated assignment, barrier start, every item twice; in a quarter of the rounds all threads first parse the same, longest input at once; all results must equal the reference. Interleavings are not controlled (stated limit). Non-trivial = history with equal-length inputs / concurrent round with >= 2 threads and equal-length inputs; distinct histories / rounds.",
    "C01": "grammars: four fifths generator profile 'core', one fifth profile 'unicode' (terminals over the whole Unicode range) (all operators, literals incl. escapes / case-insensitive, ranges, char, @char classes, $, skipping and non-skipping rules), every rule reachable through an @export @position wrapper; inputs: grammar-directed derivations, mutations of them, alphabet strings (<= max_len bytes), rarely long periodic ones, 'pumped' ones (a recursive path of the grammar followed to a nesting depth of up to ~1200, dense around powers of two and round numbers) and ones with an unusual first character (BOM, ZWSP, NUL ...); oracle: reference PEG interpreter (accept/reject + consumed bytes), termination by tracer fuel. Non-trivial = the oracle's evaluation had a backtrack after partial consumption, a closure stopped on a partial iteration, a lookahead, a range end-point hit or a case-folded insensitive match; distinct = distinct (grammar, rule, input).",
    "C02": "grammars: profile 'fields' (nested seq/choice/optional/closure/include around named fields, repeated and multi-type fields, boxed fields, overrides, @string; field and rule names also from the raw-identifier keywords `type`, `match`, `where` ...); oracle: interpreter's value rendered as derive(Debug) text, compared textually then structurally. Non-trivial = successful parse in which a binding was abandoned in a failed arm/optional/iteration, or a field received values from >= 2 matches, or an enum-typed field/override was set; distinct (grammar, rule, input).",
    "C04": "grammars: profile 'unicode' (literals/ranges/classes over the whole Unicode range, insensitive literals, char, externs returning correct byte lengths); inputs mix ASCII and multi-byte characters; all three tracer modes under catch_unwind with the cfg(peginator_verif) boundary assertion on; every exposed offset checked (is_char_boundary, <= len), every string/char of the tree must occur in the input. Non-trivial = a terminal was attempted at an offset holding a multi-byte character; distinct (grammar, rule, input).",
    "C08": "grammars: profile 'ws' (skipping and @no_skip_ws rules calling each other, includes, @string, lookaheads, $, char fields, externs, custom Whitespace rules); inputs: derivations with, independently at every token gap, nothing / one of the five ASCII whitespace chars / runs / near misses (\\x0B, U+00A0, U+2003, U+FEFF, ...); oracle: the interpreter only (accept, consumed bytes, tree). Non-trivial = whitespace skipped inside a nested construct, or a near-miss character met at a skip point, or whitespace skipped in a grammar mixing both settings; distinct (grammar, rule, input).",
    "C09": "grammars: profile 'pos' (random subsets of rules @position incl. @string and enum overrides, memoized rules with shared prefixes, multi-byte input, whitespace) plus 1/5 structured left-recursive grammars; oracle: interpreter positions inside the expected Debug tree plus interpreter-free invariants (valid byte span, string == slice, child inside parent, list elements ordered and non-overlapping, root at 0, PegPosition trait == field). Non-trivial = successful parse with >= 2 position nodes and (whitespace skipped | multi-byte consumed | cache revisit/growth); distinct (grammar, rule, input).",
    "C10": "grammars: profile 'core' (1/2), profile 'fields' (1/4; multi-field optionals and closures have their own templates) plus structured left-recursive grammars (1/4; the sentinel clause applies to those whose recursive alternatives come first); failing parses only; oracle: set of all failed attempts F_all and the counted furthest set of the interpreter (lookahead rule per the statement). Checks: position <= len on a boundary and an offset at which F_all has a failed attempt; the specifics are one of F_all's attempts at that offset or name a terminal / class / user function / lookahead of the grammar that truly does not match there (an implementation may make further real attempts of its own); without memo/leftrec position == furthest; never LeftRecursionSentinel. Non-trivial = failing parse whose failed attempts span >= 2 offsets and whose furthest failure is beyond offset 0; distinct (grammar, rule, input).",
    "C14": "grammars: seven eighths profile 'hooks', one eighth left-recursive shapes with checks on the growing rule (@check on struct/unit/override/enum/@string/@position/@char rules, @extern with and without result type, under every construct); configurations: without and with user context type (alternating grammars); oracle: interpreter calling the same pure functions; compared: accept, consumed, tree; every observed call must carry an argument the documented semantics passes (a @char check: any character of the input), every predicted extern call must be made, argument type, calls recorded in the user context. Whether and in which order checks that cannot change the decision are asked is not specified and not compared. Non-trivial = a hook returned false/Err during the parse; distinct (grammar, rule, input).",
    "C19": "grammars: profile 'mixed' (memoized rules, failing checks, externs, all constructs); every input parsed plain, with parse_with_trace (IndentedTracer, debug build: underflow panics) and with a recording custom tracer; results must be identical, no panic, recorded entries/exits balanced with the tracer value's own depth equal to the nesting depth, outermost pair = exported rule with the parse result; agreement of the reported entries with the reference evaluation is only counted (class trace_entries_match_reference_evaluation): which entries a correct implementation reports beyond balance is not specified. Non-trivial = trace contains a failing rule or a cache/growth info event; distinct (grammar, rule, input).",
}


def _run_bin(binary, models, prop, seed, cases, max_len, out, extra=()):
    cmd = [binary, "--models", models, "--prop", prop, "--seed", str(seed), "--cases", str(cases), "--max-len", str(max_len), "--out", out] + list(extra)
    t0 = time.time()
    # the process environment is part of "every parse": every second batch process runs as in an interactive terminal
    # session (narrow COLUMNS, colours forced, TERM set), the others with these variables removed
    env = dict(os.environ)
    for k in ("COLUMNS", "LINES", "TERM", "NO_COLOR", "CLICOLOR", "CLICOLOR_FORCE", "RUST_BACKTRACE"):
        env.pop(k, None)
    digits = "".join(ch for ch in os.path.basename(binary) if ch.isdigit())
    if digits and int(digits[-2:]) % 2 == 1:
        env.update(COLUMNS="37", LINES="12", TERM="xterm-256color", CLICOLOR_FORCE="1", RUST_BACKTRACE="1")
    try:
        p = subprocess.run(cmd, stdout=subprocess.DEVNULL, stderr=subprocess.DEVNULL, timeout=3600, env=env)
        rc = p.returncode
    except subprocess.TimeoutExpired:
        rc = -999
    return rc, time.time() - t0


# properties whose batches also contain the repository's own test grammars (lifted to models)
WITH_REPO_GRAMMARS = {"C01", "C02", "C04", "C08", "C09", "C10", "C19", "C20"}


def generate(plan, seed, count, tier, wave, extra_specs=None, crates=16, repo_grammars=False):
    out = os.path.join(ws.WS, "batch", plan)
    os.makedirs(out, exist_ok=True)
    env = dict(os.environ)
    env["VERIF_REPO_PATH"] = ws.REPO
    cmd = [ws.tool("genner"), "gen", "--plan", plan, "--seed", str(seed), "--count", str(count), "--out", out,
           "--tier", tier, "--wave", str(wave), "--crates", str(crates)]
    if repo_grammars:
        cmd += ["--repo-grammars", os.path.join(ws.REPO, "test", "src")]
    if extra_specs:
        ef = os.path.join(ws.WORK, "extra_%s.json" % plan)
        with open(ef, "w") as f:
            json.dump(extra_specs, f)
        cmd += ["--extra", ef]
    p = subprocess.run(cmd, env=env, stdout=subprocess.PIPE, stderr=subprocess.PIPE, text=True, timeout=1800)
    if p.returncode != 0:
        log("genner failed:", p.stderr[-3000:])
        return None
    return out


def crates_of(out):
    return sorted(d for d in os.listdir(out) if os.path.isfile(os.path.join(out, d, "Cargo.toml")))


def build(out, profile=None):
    """cargo build of the batch crates; returns (ok_crates, errors_by_grammar) with rustc diagnostics attributed by file name."""
    ws.materialise()
    crates = crates_of(out)
    args = ["build", "--offline", "--keep-going"] + (["--profile", profile] if profile else [])
    for c in crates:
        args += ["-p", c]
    p = ws.cargo(args, json_messages=True, timeout=3600)
    errors = {}
    other_errors = []
    for line in p.stdout.splitlines():
        if not line.startswith("{"):
            continue
        try:
            m = json.loads(line)
        except Exception:
            continue
        if m.get("reason") != "compiler-message":
            continue
        msg = m["message"]
        if msg.get("level") != "error":
            continue
        text = msg.get("message", "")[:400]
        if text.startswith("aborting due to") or text.startswith("could not compile"):
            continue
        gids = set()
        def visit(spans):
            for s in spans:
                fn = os.path.basename(s.get("file_name", ""))
                if re.match(r"^[a-z]\d{3,}", fn) and fn.endswith(".rs"):
                    gids.add(fn[:-3].replace("_glue", ""))
                exp = s.get("expansion")
                if exp:
                    visit([exp["span"]])
        visit(msg.get("spans", []))
        for ch in msg.get("children", []):
            visit(ch.get("spans", []))
        code = (msg.get("code") or {}).get("code", "")
        if gids:
            for g in gids:
                errors.setdefault(g, []).append("%s %s" % (code, text))
        else:
            other_errors.append("%s %s" % (code, text))
    built = [c for c in crates if os.path.isfile(ws.tool(c)) ]
    return p.returncode, errors, other_errors


def prune(out, bad_ids):
    """remove grammars that do not compile from the batch (they are C03 cases) and regenerate the crate sources"""
    with open(os.path.join(out, "models.json")) as f:
        models = json.load(f)
    keep = [m for m in models if m["id"] not in bad_ids]
    specs = []
    for m in keep:
        s = m["spec"]
        # model in models.json already contains the wrappers
        s = dict(s)
        s["flags"] = dict(s.get("flags") or {})
        s["flags"]["no_wrappers"] = True
        specs.append(s)
    sf = os.path.join(ws.WORK, "prune_specs.json")
    with open(sf, "w") as f:
        json.dump(specs, f)
    env = dict(os.environ)
    env["VERIF_REPO_PATH"] = ws.REPO
    plan = os.path.basename(out)
    p = subprocess.run([ws.tool("genner"), "one", "--spec", sf, "--out", out, "--plan", plan], env=env,
                       stdout=subprocess.PIPE, stderr=subprocess.PIPE, text=True)
    return p.returncode == 0


def run_wave(prop, out, seed, cases, max_len, extra=(), profile=None):
    crates = crates_of(out)
    models = os.path.join(out, "models.json")
    partials = []
    hangs = []
    died = []
    pdir = os.path.join(ws.WORK, "partials", prop)
    shutil.rmtree(pdir, ignore_errors=True)
    os.makedirs(pdir, exist_ok=True)
    jobs = []
    with ThreadPoolExecutor(max_workers=16) as ex:
        for c in crates:
            b = ws.tool(c, profile)
            if not os.path.isfile(b):
                continue
            o = os.path.join(pdir, c + ".json")
            jobs.append((c, o, ex.submit(_run_bin, b, models, prop, seed, cases, max_len, o, extra)))
        for c, o, fut in jobs:
            rc, dt = fut.result()
            if os.path.exists(o + ".hang"):
                with open(o + ".hang") as f:
                    hangs.append((c, json.load(f)))
            elif rc != 0 or not os.path.exists(o):
                died.append((c, rc))
            else:
                with open(o) as f:
                    partials.append(json.load(f))
    return partials, hangs, died


def merge(partials):
    tot = dict(evaluations=0, nontrivial=set(), classes={}, skipped={}, input_kinds={}, samples=[], violations=[], grammars=0, rules=0)
    for p in partials:
        tot["evaluations"] += p["evaluations"]
        tot["nontrivial"].update(p["nontrivial"])
        for k in ("classes", "skipped", "input_kinds"):
            for a, b in p.get(k, {}).items():
                tot[k][a] = tot[k].get(a, 0) + b
        tot["samples"].extend(p["samples"])
        tot["violations"].extend(p["violations"])
        tot["grammars"] += p["grammars"]
        tot["rules"] += p["rules"]
    return tot
