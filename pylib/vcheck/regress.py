"""Replay tier: committed regression cases (replays/<ID>/*.json) are re-run first in every check run."""
import os, json, glob, subprocess, shutil
from . import ws, batch
from .ws import log

FRONT_KINDS = {("C11", "case"), ("C12", "roundtrip"), ("C18", "history"), ("C15", "compile"), ("C04", "runtime"), ("C16", "history")}


def _records(prop):
    d = os.path.join(ws.VERIF, "replays", prop)
    out = []
    for f in sorted(glob.glob(os.path.join(d, "*.json"))):
        try:
            with open(f) as fh:
                out.append((f, json.load(fh)))
        except Exception:
            pass
    return out


def _specs_of(rec):
    if "group" in rec and isinstance(rec["group"], list):
        return [m["spec"] for m in rec["group"]]
    if rec.get("spec"):
        return [rec["spec"]]
    return []


def run(prop):
    """returns (violations, number of regression cases run, problem)"""
    recs = _records(prop)
    if not recs:
        return [], 0, None
    violations = []
    ran = 0
    batch_recs = []
    for path, rec in recs:
        kind = rec.get("kind", "case")
        if (prop, kind) in FRONT_KINDS:
            if not os.path.exists(ws.tool("front")):
                if not ws.build_tools(("front",)):
                    return violations, ran, "front build failed"
            wd = os.path.join(ws.WORK, "regresstmp")
            os.makedirs(wd, exist_ok=True)
            tool = "front"
            if rec.get("feature_colored") is False:
                # recorded against the runtime built without its `colored` feature
                tool = "frontnc"
                if not os.path.exists(ws.tool("frontnc")) and not ws.build_tools(("frontnc",)):
                    return violations, ran, "frontnc build failed"
            p = subprocess.run([ws.tool(tool), "replay", path, "--workdir", wd], stdout=subprocess.PIPE, stderr=subprocess.DEVNULL, text=True, timeout=900)
            shutil.rmtree(wd, ignore_errors=True)
            ran += 1
            if p.returncode == 1:
                try:
                    v = json.loads(p.stdout.strip().splitlines()[-1])
                except Exception:
                    v = dict(property=prop, kind=kind, message="regression case fails")
                v["regression"] = os.path.basename(path)
                v["message"] = "[regression %s] %s" % (os.path.basename(path), v.get("message", ""))
                for k in ("text", "pos", "file", "color", "history", "ops", "model", "derives", "expect", "sub", "offset", "matcher", "lit", "c1", "c2"):
                    if k in rec and k not in v:
                        v[k] = rec[k]
                violations.append(v)
        elif _specs_of(rec):
            batch_recs.append((path, rec))
    if not batch_recs:
        return violations, ran, None
    if not ws.build_tools(("genner",)):
        return violations, ran, "genner build failed"
    specs = []
    owner = {}
    for i, (path, rec) in enumerate(batch_recs):
        for j, s in enumerate(_specs_of(rec)):
            s = json.loads(json.dumps(s))
            fl = dict(s.get("flags") or {})
            if any(("Normal" in r and r["Normal"]["name"].startswith("W_")) for r in s["model"]["rules"]):
                fl["no_wrappers"] = True
            s["flags"] = fl
            s["id"] = "r%03d_%d" % (i, j)
            s["group"] = "rec%03d" % i
            specs.append(s)
            owner[s["id"]] = i
    plan = "regress_" + prop.lower()
    out = os.path.join(ws.WS, "batch", plan)
    os.makedirs(out, exist_ok=True)
    sf = os.path.join(ws.WORK, "regress_specs_%s.json" % prop)
    with open(sf, "w") as f:
        json.dump(specs, f)
    env = dict(os.environ)
    env["VERIF_REPO_PATH"] = ws.REPO
    gplan = "macro" if any((s.get("flags") or {}).get("via_macro") for s in specs) else plan
    p = subprocess.run([ws.tool("genner"), "one", "--spec", sf, "--out", out, "--plan", gplan, "--crates", str(min(16, len(batch_recs)))],
                       env=env, stdout=subprocess.PIPE, stderr=subprocess.PIPE, text=True)
    if p.returncode != 0:
        return violations, ran, "genner failed on regression specs: %s" % p.stderr[-400:]
    with open(os.path.join(out, "failures.json")) as f:
        fails = json.load(f)
    failed_recs = set()
    for fl in fails:
        i = owner.get(fl["id"])
        if i is None:
            continue
        failed_recs.add(i)
        path, rec = batch_recs[i]
        ran += 1
        violations.append(dict(property=prop, kind=rec.get("kind", "case"), regression=os.path.basename(path), grammar_text=fl["text"], spec=fl["spec"],
                               message="[regression %s] the code generator no longer compiles the recorded grammar (%s: %s)" % (os.path.basename(path), fl["stage"], fl["message"][:200])))
    rc, errors, other = batch.build(out)
    for gid, errs in errors.items():
        i = owner.get(gid)
        if i is None or i in failed_recs:
            continue
        failed_recs.add(i)
        path, rec = batch_recs[i]
        ran += 1
        sp = next((s for s in specs if s["id"] == gid), None)
        violations.append(dict(property=prop, kind=rec.get("kind", "case"), regression=os.path.basename(path), spec=sp, grammar_text=rec.get("grammar_text", ""),
                               message="[regression %s] generated code for the recorded grammar does not compile: %s" % (os.path.basename(path), errs[0][:200])))
    if errors:
        bad = set()
        for gid in errors:
            i = owner.get(gid)
            bad.update(s["id"] for s in specs if owner[s["id"]] == i)
        batch.prune(out, bad)
        rc, errors2, other = batch.build(out)
    if rc != 0:
        return violations, ran, "regression batch build failed: %s" % (other[:2],)
    if prop == "C03":
        ran += len(batch_recs) - len(failed_recs)
        return violations, ran, None
    with open(os.path.join(out, "models.json")) as f:
        models = json.load(f)
    krate_of = {}
    for m in models:
        krate_of.setdefault(owner.get(m["id"]), m["krate"])
    pdir = os.path.join(ws.WORK, "partials", "regress_" + prop)
    shutil.rmtree(pdir, ignore_errors=True)
    os.makedirs(pdir)
    for i, (path, rec) in enumerate(batch_recs):
        if i in failed_recs or i not in krate_of:
            continue
        b = ws.tool(krate_of[i])
        o = os.path.join(pdir, "r%03d.json" % i)
        rcb, dt = batch._run_bin(b, os.path.join(out, "models.json"), prop, 1, 1, 64, o, ("--replay", path))
        ran += 1
        if os.path.exists(o + ".hang"):
            violations.append(dict(property=prop, kind="hang", regression=os.path.basename(path), message="[regression %s] the recorded case does not terminate" % os.path.basename(path)))
            continue
        if rcb != 0 or not os.path.exists(o):
            return violations, ran, "regression process died (%s)" % os.path.basename(path)
        with open(o) as f:
            part = json.load(f)
        for v in part["violations"]:
            v["regression"] = os.path.basename(path)
            v["message"] = "[regression %s] %s" % (os.path.basename(path), v.get("message", ""))
            violations.append(v)
    return violations, ran, None
