from .main import main
