import sys, os, json, time, hashlib
from . import ws, batch
from .ws import log, VERIF

USAGE = "usage: check setup | <ID> quick|thorough | replay <file>"


def seed_from_env():
    try:
        return int(os.environ.get("VERIF_SEED", "1"))
    except ValueError:
        return 1


def load_known():
    p = os.path.join(VERIF, "known_findings.json")
    if not os.path.exists(p):
        return []
    with open(p) as f:
        return json.load(f).get("findings", [])


def match_known(known, prop, v):
    """A violation matches a known finding only through that finding's specific matcher."""
    for k in known:
        if k.get("property") != prop or k.get("status") != "known":
            continue
        m = k.get("matcher", {})
        ok = True
        for key, want in m.items():
            if key == "message_contains":
                ok = ok and want in v.get("message", "")
            elif key == "observed_contains":
                ok = ok and want in v.get("observed", "")
            elif key == "kind":
                ok = ok and v.get("kind") == want
            elif key == "signature":
                ok = ok and v.get("signature") == want
            elif key == "signature_in":
                ok = ok and v.get("signature") in want
            elif key == "grammar_contains":
                ok = ok and want in v.get("grammar_text", "")
            else:
                ok = False
        if ok and m:
            return k
    return None


def write_replay(prop, v):
    d = os.path.join(VERIF, "replays", "new") if ws.TAG == "main" else os.path.join(ws.WORK, "replays_new")
    os.makedirs(d, exist_ok=True)
    h = hashlib.sha1(json.dumps(v, sort_keys=True).encode()).hexdigest()[:12]
    path = os.path.join(d, "%s_%s.json" % (prop, h))
    with open(path, "w") as f:
        json.dump(v, f, indent=1, ensure_ascii=False)
    return path


def write_evidence(prop, tier, seed, level, coverage, wall, violations, assumptions):
    d = os.path.join(VERIF, "evidence") if ws.TAG == "main" else os.path.join(ws.WORK, "evidence")
    os.makedirs(d, exist_ok=True)
    ev = {
        "property_id": prop,
        "tier": tier,
        "seed": seed,
        "level": level,
        "coverage": coverage,
        "assumptions": assumptions,
        "wall_s": round(wall, 2),
        "violations": violations,
    }
    with open(os.path.join(d, prop + ".json"), "w") as f:
        json.dump(ev, f, indent=1, ensure_ascii=False)


def finish(prop, tier, seed, t0, coverage, violations, assumptions, infra_problem=None):
    """Common tail: regression replays, known-finding filtering, VIOLATION lines, evidence, exit status."""
    from . import regress
    try:
        rv, ran, rproblem = regress.run(prop)
    except Exception as e:  # the replay tier must never turn into an alarm by itself
        rv, ran, rproblem = [], 0, "regression tier crashed: %r" % (e,)
    violations = list(rv) + list(violations)
    coverage["regression_cases_replayed"] = ran
    coverage["evaluations"] = coverage.get("evaluations", 0) + ran
    if rproblem:
        infra_problem = infra_problem or rproblem
    known = load_known()
    new = []
    known_hits = {}
    for v in violations:
        k = match_known(known, prop, v)
        if k is not None:
            known_hits.setdefault(k["key"], (k, 0))
            known_hits[k["key"]] = (k, known_hits[k["key"]][1] + 1)
        else:
            new.append(v)
    for key, (k, n) in sorted(known_hits.items()):
        print("KNOWN-FINDING: property=%s %s (%s; %d occurrence(s) this run)" % (prop, k["what"], key, n))
    coverage["known_finding_hits"] = {k: n for k, (_, n) in known_hits.items()}
    # one VIOLATION line per distinct failure message head (root-cause grouping is manual)
    printed = 0
    # grammar shrinking for the first few single-grammar violations (inputs were already shrunk by proptest)
    if new and ws.TAG is not None:
        from . import shrink
        rounds = 6 if tier == "quick" else 14
        for i in range(min(2, len(new))):
            if "regression" in new[i]:
                continue
            try:
                new[i] = shrink.shrink(prop, new[i], rounds)
            except Exception as e:
                log("shrinking failed: %r" % (e,))
    for v in new[:20]:
        path = write_replay(prop, v)
        print("VIOLATION property=%s replay=%s" % (prop, path))
        log("  " + (v.get("message") or "")[:300])
        printed += 1
    if infra_problem and not new:
        coverage["inconclusive"] = infra_problem
    ok_evidence = coverage.get("evaluations", 0) >= 1
    if ok_evidence:
        write_evidence(prop, tier, seed, "exploration", coverage, time.time() - t0, len(new), assumptions)
    sys.stdout.flush()
    if new:
        return 1
    if infra_problem:
        log("INCONCLUSIVE: " + infra_problem)
        return 2
    if not ok_evidence:
        log("INCONCLUSIVE: nothing could be explored")
        return 2
    return 0


BATCH_ASSUMPTIONS = [
    "reference PEG interpreter and static type oracle (verif_core) are written from doc/syntax.md and the property statements; they are the trusted base",
    "grammars are well-formed by construction (no unguarded left recursion, no nullable closure bodies, type cycles broken) within the generator bounds stated in rule",
    "rustc/cargo build the generated code from /repo's working tree with --cfg peginator_verif",
]


def run_batch_property(prop, tier, seed):
    t0 = time.time()
    if not ws.build_tools(("genner",)):
        log("harness build failed")
        return 2
    cfg = batch.PLANS[prop]
    plan = cfg["plan"]
    st = cfg[tier]
    max_len = st.get("max_len", 64)
    tot = None
    extra_cov = dict(waves=0, uncompilable=0, front_end_rejected=0, generator_failed=0, gen_rejected={}, gen_attempts=0)
    violations = []
    infra = None
    for wave in range(st["waves"]):
        # build configuration is part of "every parser": the last wave of a thorough run is built without debug assertions
        # and overflow checks (C19 keeps them: its underflow clause is about the checked build)
        profile = "nodbg" if (tier == "thorough" and st["waves"] >= 2 and wave == st["waves"] - 1 and prop != "C19") else None
        if os.environ.get("VERIF_PROFILE"):
            profile = os.environ["VERIF_PROFILE"]
        if profile:
            extra_cov["waves_without_debug_assertions"] = extra_cov.get("waves_without_debug_assertions", 0) + 1
        out = batch.generate(plan, seed, st["count"], tier, wave, repo_grammars=(prop in batch.WITH_REPO_GRAMMARS and wave == 0))
        if out is None:
            infra = "genner failed"
            break
        with open(os.path.join(out, "failures.json")) as f:
            fails = json.load(f)
        for fl in fails:
            if fl["stage"] == "front":
                extra_cov["front_end_rejected"] += 1
            else:
                extra_cov["generator_failed"] += 1
            if prop == "C13" and fl["spec"].get("group"):
                # one member of an include / inlined pair is refused (or crashes the generator): not the same types and parsers
                violations.append(dict(property="C13", kind="pair_compile", grammar_text=fl["text"], spec=fl["spec"], signature="pair:" + fl["stage"],
                                       message="the %s grammar of an include/inlined pair is not compiled (%s: %s) " % (fl["spec"].get("role"), fl["stage"], fl["message"][:200]),
                                       expected="both members compile to the same types", observed=fl["message"][:400]))
        with open(os.path.join(out, "gen_stats.json")) as f:
            gs = json.load(f)
        for k, v in gs["plan_stats"].get("rejected", {}).items():
            extra_cov["gen_rejected"][k] = extra_cov["gen_rejected"].get(k, 0) + v
        extra_cov["gen_attempts"] += gs["plan_stats"].get("attempts", 0)
        rc, errors, other = batch.build(out, profile)
        if errors:
            extra_cov["uncompilable"] += len(errors)
            log("uncompilable grammars (C03 cases): %s" % sorted(errors)[:10])
            if not batch.prune(out, set(errors)):
                infra = "prune failed"
                break
            rc, errors2, other = batch.build(out, profile)
            if errors2:
                infra = "batch still does not compile after pruning: %s" % sorted(errors2)[:5]
                break
        if rc != 0:
            infra = "batch build failed: %s" % (other[:3],)
            break
        partials, hangs, died = batch.run_wave(prop, out, seed + wave * 7919, st["cases"], max_len, profile=profile)
        for c, h in hangs:
            hv = h.get("hang") or {}
            # a wall-clock budget is never a correctness signal: termination is decided by the deterministic tracer fuel /
            # depth bound (oracle-relative); a watchdog hit only makes the run inconclusive (exit 2)
            infra = "a batch process hung (watchdog) in %s: %s" % (c, json.dumps(hv)[:300])
        for c, rc2 in died:
            infra = "batch process %s died with status %s" % (c, rc2)
        m = batch.merge(partials)
        if tot is None:
            tot = m
        else:
            tot["evaluations"] += m["evaluations"]
            tot["nontrivial"].update(m["nontrivial"])
            for k in ("classes", "skipped", "input_kinds"):
                for a, b in m[k].items():
                    tot[k][a] = tot[k].get(a, 0) + b
            tot["samples"].extend(m["samples"])
            tot["violations"].extend(m["violations"])
            tot["grammars"] += m["grammars"]
            tot["rules"] += m["rules"]
        extra_cov["waves"] += 1
        if tot["violations"]:
            break
    if tot is None:
        tot = dict(evaluations=0, nontrivial=set(), classes={}, skipped={}, input_kinds={}, samples=[], violations=[], grammars=0, rules=0)
    violations.extend(tot["violations"])
    coverage = dict(
        evaluations=tot["evaluations"],
        distinct_nontrivial=len(tot["nontrivial"]),
        rule=batch.RULES.get(prop, ""),
        samples=tot["samples"][:12],
        grammars=tot["grammars"],
        exported_rules_run=tot["rules"],
        classes=tot["classes"],
        skipped=tot["skipped"],
        input_kinds=tot["input_kinds"],
        cases_per_rule=st["cases"],
        max_input_len=max_len,
        plan=plan,
        **extra_cov,
    )
    if prop == "C04":
        # runtime layer: the public terminal matchers against reference matchers (engine E2)
        from . import special
        if not ws.build_tools(("front",)):
            infra = infra or "front build failed"
        else:
            cases = 400000 if tier == "quick" else 8000000
            j, err = special.run_front(["c04rt", "--seed", str(seed), "--cases", str(cases)])
            if j is None:
                infra = infra or err
            else:
                coverage["evaluations"] += j["evaluations"]
                coverage["distinct_nontrivial"] += j["distinct_nontrivial"]
                coverage["runtime_layer"] = dict(evaluations=j["evaluations"], distinct_nontrivial=j["distinct_nontrivial"], classes=j["classes"],
                                                 rule="(text, start offset, matcher, parameters) for the eight public terminal matchers plus advance_safe/slice_until/range_until; parameters as the code generator emits them (insensitive literals ASCII-lowercased); oracle: reference matchers written with chars(); checks: same accept/reject, same consumed bytes, cursor on a char boundary, same error position and detail, no panic (cfg(peginator_verif) assertion on). Non-trivial = multi-byte character at the cursor.")
                coverage["samples"] = coverage["samples"][:8] + j["samples"][:4]
                violations.extend(j["violations"])
            if tier == "thorough" and not violations:
                stats, fv, problem = special.fuzz_campaign("fz_builtin", "C04", seed, 20000000, 48)
                if stats:
                    coverage["fuzz_campaign"] = stats
                    coverage["evaluations"] += stats.get("number_of_executed_units", 0)
                violations.extend(fv)
                if problem:
                    infra = infra or problem
    return finish(prop, tier, seed, t0, coverage, violations, BATCH_ASSUMPTIONS, infra)


def main(argv, locked=False):
    if not argv:
        print(USAGE)
        return 2
    if not locked:
        ws.lock()
    if argv[0] == "setup":
        ok = ws.build_tools(("verif_core", "genner", "batchrt", "front"))
        return 0 if ok else 2
    if argv[0] == "dev-build":
        ok = ws.build_tools(tuple(argv[1:]) or ("verif_core",))
        return 0 if ok else 2
    if argv[0] == "replay":
        from . import replay
        return replay.run(argv[1])
    prop = argv[0]
    tier = argv[1] if len(argv) > 1 else os.environ.get("VERIF_TIER", "quick")
    if tier not in ("quick", "thorough"):
        print(USAGE)
        return 2
    seed = seed_from_env()
    if prop in batch.PLANS:
        return run_batch_property(prop, tier, seed)
    from . import special
    if prop in special.HANDLERS:
        return special.HANDLERS[prop](prop, tier, seed)
    print("unknown property", prop)
    return 2
