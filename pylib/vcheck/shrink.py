"""Batch delta-debugging of a failing grammar: all one-step reductions are compiled together, each is re-tested
on the failing rule with fresh generated inputs, the smallest still-failing one is kept; a few rounds."""
import os, json, subprocess, shutil
from . import ws, batch
from .ws import log

SINGLE_CASE_PROPS = {"C01", "C02", "C04", "C06", "C07", "C08", "C09", "C10", "C14", "C19"}


def shrink(prop, v, rounds, cases=300):
    """returns a (possibly) smaller violation record"""
    if prop not in SINGLE_CASE_PROPS or v.get("kind", "case") != "case" or not v.get("spec") or not v.get("rule"):
        return v
    best = v
    env = dict(os.environ)
    env["VERIF_REPO_PATH"] = ws.REPO
    for rnd in range(rounds):
        spec = dict(best["spec"])
        fl = dict(spec.get("flags") or {})
        fl["no_wrappers"] = True
        spec["flags"] = fl
        sf = os.path.join(ws.WORK, "shrink_in.json")
        cf = os.path.join(ws.WORK, "shrink_cands.json")
        with open(sf, "w") as f:
            json.dump(spec, f)
        p = subprocess.run([ws.tool("genner"), "reduce", "--spec", sf, "--rule", best["rule"], "--out", cf], env=env, stdout=subprocess.PIPE, stderr=subprocess.PIPE, text=True)
        if p.returncode != 0:
            break
        with open(cf) as f:
            cands = json.load(f)
        if not cands:
            break
        out = os.path.join(ws.WS, "batch", "shrink")
        shutil.rmtree(out, ignore_errors=True)
        os.makedirs(out)
        p = subprocess.run([ws.tool("genner"), "one", "--spec", cf, "--out", out, "--plan", "shrink", "--crates", "16"], env=env, stdout=subprocess.PIPE, stderr=subprocess.PIPE, text=True)
        if p.returncode != 0:
            break
        rc, errors, other = batch.build(out)
        if errors:
            batch.prune(out, set(errors))
            rc, errors, other = batch.build(out)
        if rc != 0:
            break
        partials, hangs, died = batch.run_wave(prop, out, 1 + rnd, cases, 64, extra=("--only-rule", best["rule"]))
        m = batch.merge(partials)
        fails = [x for x in m["violations"] if x.get("rule") == best["rule"]]
        if not fails:
            break
        # smallest grammar text among the still-failing candidates
        fails.sort(key=lambda x: (len(x.get("grammar_text", "")), len(x.get("input", ""))))
        nxt = fails[0]
        if len(nxt.get("grammar_text", "")) >= len(best.get("grammar_text", "")):
            break
        nxt["shrunk_from"] = best.get("shrunk_from") or dict(grammar_text=v.get("grammar_text"), input=v.get("input"), message=v.get("message"))
        nxt["shrink_rounds"] = rnd + 1
        best = nxt
    shutil.rmtree(os.path.join(ws.WS, "batch", "shrink"), ignore_errors=True)
    return best
