"""Property handlers that do not follow the plain batch scheme."""
import os, json, time, hashlib
from . import ws, batch
from .ws import log


def _main():
    import sys
    return sys.modules["vcheck.main"]


# ------------------------------------------------------------------------------------------------
# C03: documented type mapping, always compiles, no unsafe, keyword names, derive sets
# ------------------------------------------------------------------------------------------------
C03_RULE = ("grammars: profile 'types' (arity/type-set combinations across nested constructs, Rust keywords as rule and field names, "
            "boxes on subsets of variants, override-only rules, @string (+-@position, with single- and multi-type fields inside), @char, "
            "@extern, field-less rules, @position, @check, @memoize); configurations cycle over derive sets [Debug,Clone], "
            "[Debug,Clone,PartialEq,Eq], [Clone], [] and with/without user context type. Oracle: rustc on the generated module together "
            "with exact-type assertions emitted from the independent static oracle (exhaustive destructuring of every struct, exhaustive "
            "match over every enum, alias equality in both directions, PegPosition impl) under #![forbid(unsafe_code)], plus a token scan "
            "for unsafe/static/thread_local. evaluations = grammar x configuration compiled; non-trivial = grammar has a field with "
            "Option/Vec arity or several types, a boxed field, an override rule, or a keyword name; distinct by grammar hash.")


def _type_classes(spec):
    """classification from the model (python side, simple walk)"""
    classes = set()
    kw = {"as", "break", "const", "continue", "else", "enum", "extern", "false", "fn", "for", "if", "impl", "in", "let", "loop", "match",
          "mod", "move", "mut", "pub", "ref", "return", "static", "struct", "trait", "true", "type", "unsafe", "use", "where", "while",
          "async", "await", "dyn", "abstract", "become", "box", "do", "final", "macro", "override", "priv", "typeof", "unsized", "virtual",
          "yield", "try", "gen", "union", "auto", "default"}

    def walk(e, depth_kinds):
        if isinstance(e, str):
            return
        for k, v in e.items():
            if k == "Ref":
                f = v["field"]
                if f != "None":
                    if "Opt" in depth_kinds:
                        classes.add("field_under_optional")
                    if "Star" in depth_kinds or "Plus" in depth_kinds:
                        classes.add("field_under_closure")
                    if "Choice" in depth_kinds:
                        classes.add("field_under_choice")
                    if v["boxed"]:
                        classes.add("boxed")
                    if f == "Override":
                        classes.add("override")
                    elif isinstance(f, dict) and f.get("Named") in kw:
                        classes.add("keyword_field")
            elif k in ("Choice", "Seq"):
                for x in v:
                    walk(x, depth_kinds | {k})
            elif k in ("Group", "Opt", "Star", "Plus", "Not", "And"):
                walk(v, depth_kinds | {k})
    for r in spec["model"]["rules"]:
        if "Normal" in r:
            n = r["Normal"]
            if n["name"] in kw:
                classes.add("keyword_rule")
            for d in n["directives"]:
                if d == "String":
                    classes.add("string_rule")
                if d == "Position":
                    classes.add("position")
            walk(n["body"], frozenset())
        elif "CharClass" in r:
            classes.add("char_rule")
            if r["CharClass"]["name"] in kw:
                classes.add("keyword_rule")
        elif "Extern" in r:
            classes.add("extern_rule")
    return classes


def run_c03(prop, tier, seed):
    main = _main()
    t0 = time.time()
    if not ws.build_tools(("genner",)):
        return 2
    st = dict(quick=dict(count=320, waves=1), thorough=dict(count=320, waves=8))[tier]
    violations = []
    infra = None
    evaluations = 0
    nontrivial = set()
    classes = {}
    samples = []
    gen_rejected = {}
    fe_rejected = 0
    for wave in range(st["waves"]):
        out = batch.generate("types", seed, st["count"], tier, wave)
        if out is None:
            infra = "genner failed"
            break
        with open(os.path.join(out, "failures.json")) as f:
            fails = json.load(f)
        with open(os.path.join(out, "gen_stats.json")) as f:
            gs = json.load(f)
        with open(os.path.join(out, "models.json")) as f:
            models = json.load(f)
        for k, v in gs["plan_stats"].get("rejected", {}).items():
            gen_rejected[k] = gen_rejected.get(k, 0) + v
        for fl in fails:
            if fl["stage"] == "front":
                fe_rejected += 1
                continue
            evaluations += 1
            violations.append(dict(property="C03", kind="generator_" + fl["stage"], grammar_text=fl["text"], spec=fl["spec"],
                                   signature=fl["stage"],
                                   message="the code generator %s on a well-formed grammar within the documented restrictions: %s" % (
                                       "panics" if fl["stage"] == "codegen_panic" else "fails", fl["message"][:300]),
                                   expected="generated code", observed=fl["message"][:500]))
        for gid, hits in gs.get("scan_hits", {}).items():
            m = next((m for m in models if m["id"] == gid), None)
            violations.append(dict(property="C03", kind="scan", grammar_text=m["text"] if m else "", spec=m["spec"] if m else None,
                                   signature="scan:" + ",".join(sorted(set(hits))),
                                   message="generated code contains the token(s) %s" % sorted(set(hits)), expected="no unsafe/static/thread_local",
                                   observed=",".join(hits)))
        rc, errors, other = batch.build(out)
        by_id = {m["id"]: m for m in models}
        for gid, errs in sorted(errors.items()):
            m = by_id.get(gid)
            if m is None:
                continue
            sig = errs[0].split(" ")[0]
            violations.append(dict(property="C03", kind="uncompilable", grammar_text=m["text"], spec=m["spec"], signature=sig,
                                   message="generated code (or its exact-type assertions from the documented mapping) does not compile: %s" % errs[0][:300],
                                   expected="compiles", observed="; ".join(e[:200] for e in errs[:4])))
        if rc != 0 and not errors:
            infra = "batch build failed without attributable errors: %s" % (other[:3],)
            break
        for m in models:
            evaluations += 1
            cl = _type_classes(m["spec"])
            for c in cl:
                classes[c] = classes.get(c, 0) + 1
            role = m["spec"].get("role", "")
            classes["config " + role] = classes.get("config " + role, 0) + 1
            if cl & {"field_under_optional", "field_under_closure", "field_under_choice", "boxed", "override", "keyword_field", "keyword_rule"}:
                nontrivial.add(hashlib.sha1(m["text"].encode()).hexdigest())
                if len(samples) < 8 and m["id"] not in errors:
                    samples.append(dict(grammar=m["text"], config=role, classes=sorted(cl), compiled=True))
        if violations:
            break
    coverage = dict(evaluations=evaluations, distinct_nontrivial=len(nontrivial), rule=C03_RULE, samples=samples, classes=classes,
                    gen_rejected=gen_rejected, front_end_rejected=fe_rejected)
    return main.finish(prop, tier, seed, t0, coverage, violations, main.BATCH_ASSUMPTIONS, infra)


HANDLERS = {"C03": run_c03}
