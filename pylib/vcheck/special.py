"""Property handlers that do not follow the plain batch scheme."""
import os, json, time, hashlib
from . import ws, batch
from .ws import log


def _main():
    import sys
    return sys.modules["vcheck.main"]


# ------------------------------------------------------------------------------------------------
# C03: documented type mapping, always compiles, no unsafe, keyword names, derive sets
# ------------------------------------------------------------------------------------------------
C03_RULE = ("grammars: profile 'types' (arity/type-set combinations across nested constructs, Rust keywords as rule and field names, "
            "boxes on subsets of variants, override-only rules, @string (+-@position, with single- and multi-type fields inside), @char, "
            "@extern, field-less rules, @position, @check, @memoize); configurations cycle over derive sets [Debug,Clone], "
            "[Debug,Clone,PartialEq,Eq], [Clone], [] and with/without user context type; every second batch crate is a 2024-edition crate, the others "
            "2021 (the repository's edition). Oracle: rustc on the generated module together "
            "with exact-type assertions emitted from the independent static oracle (exhaustive destructuring of every struct, exhaustive "
            "match over every enum, alias equality in both directions, PegPosition impl) under #![forbid(unsafe_code)], plus a token scan "
            "for `unsafe` (occurrences of `static` / `thread_local` are only counted in coverage.scan_info). evaluations = grammar x configuration compiled; non-trivial = grammar has a field with "
            "Option/Vec arity or several types, a boxed field, an override rule, or a keyword name; distinct by grammar hash.")


def _type_classes(spec):
    """classification from the model (python side, simple walk)"""
    classes = set()
    kw = {"as", "break", "const", "continue", "else", "enum", "extern", "false", "fn", "for", "if", "impl", "in", "let", "loop", "match",
          "mod", "move", "mut", "pub", "ref", "return", "static", "struct", "trait", "true", "type", "unsafe", "use", "where", "while",
          "async", "await", "dyn", "abstract", "become", "box", "do", "final", "macro", "override", "priv", "typeof", "unsized", "virtual",
          "yield", "try", "gen", "union", "auto", "default"}

    def walk(e, depth_kinds):
        if isinstance(e, str):
            return
        for k, v in e.items():
            if k == "Ref":
                f = v["field"]
                if f != "None":
                    if "Opt" in depth_kinds:
                        classes.add("field_under_optional")
                    if "Star" in depth_kinds or "Plus" in depth_kinds:
                        classes.add("field_under_closure")
                    if "Choice" in depth_kinds:
                        classes.add("field_under_choice")
                    if v["boxed"]:
                        classes.add("boxed")
                    if f == "Override":
                        classes.add("override")
                    elif isinstance(f, dict) and f.get("Named") in kw:
                        classes.add("keyword_field")
            elif k in ("Choice", "Seq"):
                for x in v:
                    walk(x, depth_kinds | {k})
            elif k in ("Group", "Opt", "Star", "Plus", "Not", "And"):
                walk(v, depth_kinds | {k})
    for r in spec["model"]["rules"]:
        if "Normal" in r:
            n = r["Normal"]
            if n["name"] in kw:
                classes.add("keyword_rule")
            for d in n["directives"]:
                if d == "String":
                    classes.add("string_rule")
                if d == "Position":
                    classes.add("position")
            walk(n["body"], frozenset())
        elif "CharClass" in r:
            classes.add("char_rule")
            if r["CharClass"]["name"] in kw:
                classes.add("keyword_rule")
        elif "Extern" in r:
            classes.add("extern_rule")
    return classes


def run_c03(prop, tier, seed):
    main = _main()
    t0 = time.time()
    if not ws.build_tools(("genner",)):
        return 2
    st = dict(quick=dict(count=320, waves=1), thorough=dict(count=320, waves=8))[tier]
    violations = []
    infra = None
    evaluations = 0
    nontrivial = set()
    classes = {}
    samples = []
    gen_rejected = {}
    fe_rejected = 0
    scan_info = {}
    for wave in range(st["waves"]):
        out = batch.generate("types", seed, st["count"], tier, wave)
        if out is None:
            infra = "genner failed"
            break
        with open(os.path.join(out, "failures.json")) as f:
            fails = json.load(f)
        with open(os.path.join(out, "gen_stats.json")) as f:
            gs = json.load(f)
        with open(os.path.join(out, "models.json")) as f:
            models = json.load(f)
        for k, v in gs["plan_stats"].get("rejected", {}).items():
            gen_rejected[k] = gen_rejected.get(k, 0) + v
        for fl in fails:
            if fl["stage"] == "front":
                fe_rejected += 1
                continue
            evaluations += 1
            violations.append(dict(property="C03", kind="generator_" + fl["stage"], grammar_text=fl["text"], spec=fl["spec"],
                                   signature=fl["stage"],
                                   message="the code generator %s on a well-formed grammar within the documented restrictions: %s" % (
                                       "panics" if fl["stage"] == "codegen_panic" else "fails", fl["message"][:300]),
                                   expected="generated code", observed=fl["message"][:500]))
        for gid, hits in gs.get("scan_hits", {}).items():
            # the property forbids `unsafe`; `static` / `thread_local` are only counted (an immutable table or a scratch
            # buffer is legitimate - hidden state is C20's business and is decided there by behaviour)
            for h in hits:
                if h != "unsafe":
                    scan_info[h] = scan_info.get(h, 0) + 1
            hits = [h for h in hits if h == "unsafe"]
            if not hits:
                continue
            m = next((m for m in models if m["id"] == gid), None)
            violations.append(dict(property="C03", kind="scan", grammar_text=m["text"] if m else "", spec=m["spec"] if m else None,
                                   signature="scan:" + ",".join(sorted(set(hits))),
                                   message="generated code contains the token(s) %s" % sorted(set(hits)), expected="no unsafe",
                                   observed=",".join(hits)))
        rc, errors, other = batch.build(out)
        by_id = {m["id"]: m for m in models}
        for gid, errs in sorted(errors.items()):
            m = by_id.get(gid)
            if m is None:
                continue
            sig = errs[0].split(" ")[0]
            violations.append(dict(property="C03", kind="uncompilable", grammar_text=m["text"], spec=m["spec"], signature=sig,
                                   message="generated code (or its exact-type assertions from the documented mapping) does not compile: %s" % errs[0][:300],
                                   expected="compiles", observed="; ".join(e[:200] for e in errs[:4])))
        if rc != 0 and not errors:
            infra = "batch build failed without attributable errors: %s" % (other[:3],)
            break
        for m in models:
            evaluations += 1
            cl = _type_classes(m["spec"])
            for c in cl:
                classes[c] = classes.get(c, 0) + 1
            role = m["spec"].get("role", "")
            classes["config " + role] = classes.get("config " + role, 0) + 1
            if cl & {"field_under_optional", "field_under_closure", "field_under_choice", "boxed", "override", "keyword_field", "keyword_rule"}:
                nontrivial.add(hashlib.sha1(m["text"].encode()).hexdigest())
                if len(samples) < 8 and m["id"] not in errors:
                    samples.append(dict(grammar=m["text"], config=role, classes=sorted(cl), compiled=True))
        if violations:
            break
    coverage = dict(evaluations=evaluations, distinct_nontrivial=len(nontrivial), rule=C03_RULE, samples=samples, classes=classes,
                    gen_rejected=gen_rejected, front_end_rejected=fe_rejected, scan_info=scan_info)
    return main.finish(prop, tier, seed, t0, coverage, violations, main.BATCH_ASSUMPTIONS, infra)


HANDLERS = {"C03": run_c03}


# ------------------------------------------------------------------------------------------------
# engine E2 "front"
# ------------------------------------------------------------------------------------------------
import subprocess, shutil, sys


def run_front(args, timeout=3600):
    out = os.path.join(ws.WORK, "front_%s_%d.json" % (args[0], os.getpid()))
    cmd = [ws.tool("front")] + args + ["--out", out]
    t0 = time.time()
    try:
        p = subprocess.run(cmd, stdout=subprocess.DEVNULL, stderr=subprocess.PIPE, text=True, timeout=timeout)
    except subprocess.TimeoutExpired:
        return None, "front %s timed out" % args[0]
    log("[front %s] rc=%d %.1fs" % (" ".join(args[:5]), p.returncode, time.time() - t0))
    if p.returncode != 0 or not os.path.exists(out):
        return None, "front %s failed: rc=%s %s" % (args[0], p.returncode, (p.stderr or "")[-500:])
    with open(out) as f:
        j = json.load(f)
    os.unlink(out)
    return j, None


FRONT_ASSUMPTIONS = [
    "the harness links /repo's runtime and codegen crates from the working tree (path dependencies), built with --cfg peginator_verif",
    "oracles are independent re-implementations written from the property statement and doc/syntax.md",
]


def cov_from_front(j, rule):
    cov = dict(evaluations=j["evaluations"], distinct_nontrivial=j["distinct_nontrivial"], rule=rule, samples=j["samples"][:12], classes=j["classes"])
    cov.update(j.get("extra", {}))
    return cov


C11_RULE = ("run twice: against the runtime crate with its default features and (a quarter of the cases) against a build without the `colored` feature. "
            "cases (text, position, file name?, colours on/off): texts assembled from line fragments (ASCII, multi-byte, tabs, spaces, empty, long lines "
            "up to 300 chars, in ~1 % of the cases one line of ~66 000 characters, in ~10 % an unusual first character) with \\n / \\r\\n / no final newline, 0-9 lines; position = a char boundary in 0..=len biased to 0, len, line starts and "
            "line ends; plus an exhaustive small scope (all texts over {a, é, space, newline} of length <= 6 x all boundary positions). Oracle: "
            "independent arithmetic for line, column (in characters), printed line (modulo trailing whitespace, as the code trims) and caret column; "
            "Display output parsed with colours forced off, or on with ANSI sequences stripped; catch_unwind for 'never panics'. Non-trivial = position at "
            "a line start other than 0, at a line end, at len, after a multi-byte character, or empty text; distinct (text, position, file).")
C12_RULE = ("round trip model -> print(model, layout) -> Grammar::from_str -> lift (public AST -> model, literal items decoded with the repo's own "
            "char::try_from(&StringItem)) == model; layouts vary whitespace and # comments (also with carriage returns that are not followed by a line feed inside the comment) between all tokens "
            "(also inside @check(...)/@extern(...) and before ';'), quote style, every escape spelling for every character (raw, \\n-style, \\xXX, \\uXXXX, "
            "\\U00XXXXXX, \\u{X..} minimal and zero padded, upper/lower hex), redundant parentheses (then compared modulo groups), directive order, several "
            "@checks before/after @char, lookaheads applied to groups, empty alternatives, literals printed in one escape form throughout, 'mojibake' literals; second relation: two layouts of one model generate byte-identical "
            "code; third relation: the same model with the flag directives moved in front of the @check directives generates the same code (directives in any order). "
            "Non-trivial = layout has a comment inside an expression, a non-raw escape, or redundant parentheses; distinct by text.")
C15_RULE = ("classes of grammar text, each counted: valid model grammars (canonical and random layout, 5 derive sets), restriction violators (25 kinds, one "
            "injected violation of each documented restriction; every kind also run 3x deterministically) which MUST be rejected with an error value, "
            "token-level mutations of valid texts, hostile identifiers and @check/@extern paths, include cycles (must be rejected), bracket nesting up to "
            "depth 64 (choice nesting up to 10), arbitrary Unicode strings; each compiled in a worker child process (from_str + generate_code under "
            "catch_unwind): outcome must be code or an error value, never a panic, a dead process (stack overflow) or no answer (20 s, then re-run alone "
            "with the hang budget). Visibility: for a sample of failing and succeeding grammars the peginator-cli binary built from the tree, "
            "Compile::run() and run_exit_on_error() are run as processes: failure => non-zero status and no generated code on stdout, success => 0. "
            "Non-trivial = the case reached code generation or is a restriction violator; distinct by text.")
C18_RULE = ("stateful PBT: history = configuration (file | directory mode with 1-3 grammar files in nested dirs plus a non-.ebnf file, in a quarter of the multi-file cases with the sub-directory "
            "being a symbolic link to a directory outside the source directory; explicit | default "
            "destination, format on/off) + 3-26 operations from {edit grammar to a valid text (pool with neighbours differing only in whitespace inside a literal / in layout / in the line-end convention) / an invalid one (syntax error, generator error, bytes that are not UTF-8) / the same text, set prefix (pool with prefixes of each "
            "other, the empty one, one starting with a comment, one starting with a newline, one rustfmt rewrites), delete destination, remove grammar, "
            "run}; model: expected destination = header(text) + optional extra // header lines + newline + prefix + newline + library code (through rustfmt "
            "when formatting). Invariants after every run: Ok iff all grammars valid; success => destination equals the model; nothing changed since the "
            "producing run => bytes and mtime untouched; failure => failing grammar's destination byte- and mtime-identical; directory mode: every "
            "destination untouched or complete. Non-trivial = a run after an edit/prefix change that follows a successful run, or an up-to-date shortcut "
            "run; distinct histories.")


def simple_front(prop, sub, rule, quick_cases, thorough_cases, extra_args=()):
    def handler(prop_, tier, seed):
        main = _main()
        t0 = time.time()
        if not ws.build_tools(("front",)):
            return 2
        cases = quick_cases if tier == "quick" else thorough_cases
        j, err = run_front([sub, "--seed", str(seed), "--cases", str(cases)] + list(extra_args))
        if j is None:
            log(err)
            return 2
        cov = cov_from_front(j, rule)
        cov["generated_cases"] = cases
        violations = j["violations"]
        infra = None
        if prop == "C11":
            # the same check against the runtime crate built without its default `colored` feature (own crate: building it
            # together with anything that depends on peginator_codegen would switch the feature back on)
            if not ws.build_tools(("frontnc",)):
                return 2
            out = os.path.join(ws.WORK, "frontnc_%d.json" % os.getpid())
            pn = subprocess.run([ws.tool("frontnc"), "c11", "--seed", str(seed), "--cases", str(max(cases // 4, 1000)), "--out", out],
                                stdout=subprocess.DEVNULL, stderr=subprocess.PIPE, text=True, timeout=3600)
            if pn.returncode != 0 or not os.path.exists(out):
                infra = "frontnc failed: rc=%s %s" % (pn.returncode, (pn.stderr or "")[-300:])
            else:
                with open(out) as f:
                    jn = json.load(f)
                os.unlink(out)
                cov["evaluations"] += jn["evaluations"]
                cov["without_colored_feature"] = dict(evaluations=jn["evaluations"], distinct_nontrivial=jn["distinct_nontrivial"], classes=jn["classes"])
                for v in jn["violations"]:
                    v["signature"] = "nocolor:" + str(v.get("signature", ""))
                    v["message"] = "[runtime built without the `colored` feature] " + str(v.get("message", ""))
                    v["feature_colored"] = False
                violations = violations + jn["violations"]
        return main.finish(prop, tier, seed, t0, cov, violations, FRONT_ASSUMPTIONS, infra)
    return handler


def build_cli(release=False):
    """peginator-cli from the tree (own target dir under the work directory); release=True: the optimised build
    without debug assertions (what `cargo install` and release build scripts use)"""
    tdir = os.path.join(ws.WORK, "repo_target")
    env = ws.cargo_env()
    env["CARGO_TARGET_DIR"] = tdir
    env["RUSTFLAGS"] = "-Awarnings"
    p = subprocess.run(["cargo", "build", "--offline", "-p", "peginator-cli", "--manifest-path", os.path.join(ws.REPO, "Cargo.toml")]
                       + (["--release"] if release else []),
                       env=env, stdout=subprocess.PIPE, stderr=subprocess.PIPE, text=True)
    if p.returncode != 0:
        log(p.stderr[-2000:])
        return None
    return os.path.join(tdir, "release" if release else "debug", "peginator-cli")


def run_c15(prop, tier, seed):
    main = _main()
    t0 = time.time()
    if not ws.build_tools(("front",)):
        return 2
    cli = build_cli()
    if cli is None:
        return 2
    known = main.load_known()
    tolerate = []
    for k in known:
        if k.get("property") == "C15" and k.get("status") == "known":
            tolerate += k.get("matcher", {}).get("signature_in", [])
    cases = 20000 if tier == "quick" else 400000
    hang = 60 if tier == "quick" else 300
    args = ["c15", "--seed", str(seed), "--cases", str(cases), "--hang-secs", str(hang)]
    if tolerate:
        args += ["--tolerate", ",".join(tolerate)]
    j, err = run_front(args, timeout=6 * 3600)
    if j is None:
        log(err)
        return 2
    violations = list(j["violations"])
    cov = cov_from_front(j, C15_RULE)
    # probes that re-confirm listed findings (each is a single deterministic case)
    pj, err = run_front(["c15-probe", "--nest", "0:6000,1:6000,2:6000"], timeout=900)
    if pj is not None:
        violations.extend(pj["violations"])
        cov["probe_cases"] = pj["evaluations"] + len(pj["violations"])
    # exponential code generation time for choices nested in groups: depth 24 needs hours; a fixed tree answers in milliseconds
    tmpd = os.path.join(ws.WORK, "c15tmp")
    shutil.rmtree(tmpd, ignore_errors=True)
    os.makedirs(tmpd)
    nest = "@export A = " + "('a' | (" * 24 + "'a'" + "))" * 24 + ";\n"
    nf = os.path.join(tmpd, "nest5.ebnf")
    with open(nf, "w") as f:
        f.write(nest)
    try:
        subprocess.run([ws.tool("front"), "codegen", nf], stdout=subprocess.DEVNULL, stderr=subprocess.DEVNULL, timeout=20)
    except subprocess.TimeoutExpired:
        violations.append(dict(property="C15", kind="compile", signature="Nesting:kind5:hang", text=nest,
                               message="code generation for 24 levels of `('a' | (...))` does not finish within 20 s (time doubles per level)",
                               expected="code or error", observed="no answer"))
    # visibility of failures through the command-line tool and the build-script helper
    tj_dir = os.path.join(tmpd, "texts")
    subprocess.run([ws.tool("front"), "texts", "--seed", str(seed), "--cases", str(150 if tier == "quick" else 1500), "--dir", tj_dir], check=True)
    with open(os.path.join(tj_dir, "texts.json")) as f:
        texts = json.load(f)
    vis = dict(cli_fail=0, cli_ok=0, buildscript_fail=0, buildscript_ok=0, exit_on_error_fail=0, exit_on_error_ok=0)
    front = ws.tool("front")
    for i, t in enumerate(texts):
        gf = os.path.join(tmpd, "t%04d.ebnf" % i)
        with open(gf, "w") as f:
            f.write(t["text"])
        try:
            lib = subprocess.run([front, "codegen", gf], stdout=subprocess.PIPE, stderr=subprocess.DEVNULL, timeout=30)
            c = subprocess.run([cli, gf], stdout=subprocess.PIPE, stderr=subprocess.PIPE, timeout=30)
        except subprocess.TimeoutExpired:
            continue
        if lib.returncode not in (0, 1):
            continue  # crash classes are the in-process part's business
        lib_ok = lib.returncode == 0
        has_code = b"mod peginator_generated" in c.stdout
        def vis_violation(route, msg, observed):
            violations.append(dict(property="C15", kind="visibility", signature="visibility:%s" % route, text=t["text"], message=msg,
                                   expected="status 0 iff the grammar compiles", observed=observed))
        if lib_ok:
            vis["cli_ok"] += 1
            if c.returncode != 0 or not has_code:
                vis_violation("cli", "peginator-cli fails (or prints no code) on a grammar the library compiles", "status %d" % c.returncode)
        else:
            vis["cli_fail"] += 1
            if c.returncode == 0 or has_code:
                vis_violation("cli", "peginator-cli exits with status 0 (or prints code) although compilation failed", "status %d, code on stdout: %s" % (c.returncode, has_code))
        if i % 3 == 0:
            dest = os.path.join(tmpd, "t%04d.rs" % i)
            for route, sub in (("buildscript", "buildscript"), ("exit_on_error", "exit-on-error")):
                if os.path.exists(dest):
                    os.unlink(dest)
                try:
                    b = subprocess.run([front, sub, gf, dest], stdout=subprocess.DEVNULL, stderr=subprocess.DEVNULL, timeout=30)
                except subprocess.TimeoutExpired:
                    continue
                vis["%s_%s" % (route, "ok" if lib_ok else "fail")] += 1
                if lib_ok != (b.returncode == 0):
                    vis_violation(route, "build-script helper status does not reflect the compilation result", "status %d for a grammar that %s" % (b.returncode, "compiles" if lib_ok else "does not compile"))
                if not lib_ok and os.path.exists(dest):
                    vis_violation(route, "build-script helper wrote a destination for a failing grammar", "destination exists")
    shutil.rmtree(tmpd, ignore_errors=True)
    cov["visibility_runs"] = vis
    cov["evaluations"] += sum(vis.values())
    return main.finish(prop, tier, seed, t0, cov, violations, FRONT_ASSUMPTIONS, None)


def run_c18(prop, tier, seed):
    main = _main()
    t0 = time.time()
    if not ws.build_tools(("front",)):
        return 2
    wd = os.path.join(ws.WORK, "c18tmp")
    os.makedirs(wd, exist_ok=True)
    cases = 250 if tier == "quick" else 6000
    j, err = run_front(["c18", "--seed", str(seed), "--cases", str(cases), "--workdir", wd], timeout=4 * 3600)
    shutil.rmtree(wd, ignore_errors=True)
    if j is None:
        log(err)
        return 2
    cov = cov_from_front(j, C18_RULE)
    return main.finish(prop, tier, seed, t0, cov, j["violations"], FRONT_ASSUMPTIONS + ["rustfmt on PATH (format mode)"], None)


HANDLERS.update({
    "C11": simple_front("C11", "c11", C11_RULE, 200000, 5000000),
    "C12": simple_front("C12", "c12", C12_RULE, 30000, 1500000),
    "C15": run_c15,
    "C18": run_c18,
})


# ------------------------------------------------------------------------------------------------
# C16: deterministic and identical through every route
# ------------------------------------------------------------------------------------------------
C16_RULE = ("accepted model grammars (profiles types/memo/mixed/fields/hooks, up to 9 rules, biased to multi-type fields and several cache entries) plus every "
            "grammar file of the repository the generator accepts (grammar.ebnf included), "
            "derive sets [Debug,Clone], [+PartialEq,Eq], [Clone], []; per grammar: library route twice in one process and in K fresh processes (fresh hash "
            "seeds) byte-identical; CLI binary built from the tree (fresh process, -d per derive): code after the header identical to the library's (the header itself is outside the statement and only counted), the same for the CLI built with --release (no debug assertions); build-script route (Compile::file.destination.prefix.derives.run in a fresh process) = header + extra // header lines + "
            "blank + prefix + newline + the same code bytes; compile histories (stateful): generated sequences of compile calls in ONE process over accepted "
            "texts and variants of them that the generator rejects half-way through a rule (non-ASCII case-insensitive literal or named field in a "
            "lookahead appended to a rule with a multi-alternative choice) - every accepted text must give exactly the code a fresh process gave, "
            "whatever was compiled (or rejected) before; macro route: batch of grammar pairs where one module is "
            "peginate!(text) and the other the library output, the same model-derived glue (exact type assertions + entry points) must compile against "
            "both and both must return equal results on generated inputs. Non-trivial = grammar has a multi-type field or >= 2 cache entries (routes) / history with an accepted text compiled after a rejected one / "
            "non-trivial input (macro pairs); distinct by grammar text / (pair, rule, input).")


def _strip_header(text):
    lines = text.split("\n")
    i = 0
    while i < len(lines) and lines[i].startswith("//"):
        i += 1
    hdr = lines[:i]
    while i < len(lines) and lines[i] == "":
        i += 1
    return hdr, "\n".join(lines[i:])


def run_c16(prop, tier, seed):
    main = _main()
    t0 = time.time()
    if not ws.build_tools(("front", "genner")):
        return 2
    cli = build_cli()
    if cli is None:
        return 2
    cli_rel = build_cli(release=True)
    if cli_rel is None:
        return 2
    front = ws.tool("front")
    n = 40 if tier == "quick" else 400
    K = 8 if tier == "quick" else 16
    d = os.path.join(ws.WORK, "c16tmp")
    shutil.rmtree(d, ignore_errors=True)
    os.makedirs(d)
    subprocess.run([front, "c16-gen", "--seed", str(seed), "--cases", str(n), "--dir", d, "--repo", ws.REPO], check=True)
    with open(os.path.join(d, "index.json")) as f:
        index = json.load(f)
    violations = []
    evaluations = 0
    nontrivial = set()
    classes = {}
    samples = []

    def viol(g, route, msg, expected="", observed=""):
        with open(g["file"]) as f:
            text = f.read()
        violations.append(dict(property="C16", kind="route", signature="route:" + route, text=text, derives=g["derives"], message=msg,
                               expected=expected[:600], observed=observed[:600]))

    def cls(c):
        classes[c] = classes.get(c, 0) + 1

    headers = {}
    for g in index:
        dargs = ["--derives", g["derives"]]
        outs = []
        for k in range(K):
            p = subprocess.run([front, "codegen", g["file"]] + dargs, stdout=subprocess.PIPE, stderr=subprocess.PIPE, timeout=120)
            evaluations += 1
            if p.returncode == 3:
                viol(g, "library", "two generate_code calls in one process differ")
                break
            if p.returncode != 0:
                viol(g, "library", "library route failed in a fresh process although it succeeded before", "code", p.stderr.decode()[:300])
                break
            outs.append(p.stdout)
        if len(outs) == K:
            if any(o != outs[0] for o in outs):
                i = next(i for i, o in enumerate(outs) if o != outs[0])
                viol(g, "library", "generated code differs between fresh processes", outs[0].decode()[:300], outs[i].decode()[:300])
            cls("library_fresh_processes")
        lib_code = outs[0].decode() if outs else None
        if len(outs) == K and all(o == outs[0] for o in outs):
            with open(g["file"] + ".code", "wb") as f:
                f.write(outs[0])
        with open(g["file"]) as f:
            text = f.read()
        # CLI route (cannot express the empty derive set)
        if lib_code is not None and g["derives"] != "-":
            cargs = []
            for dv in g["derives"].split(","):
                cargs += ["-d", dv]
            p = subprocess.run([cli] + cargs + [g["file"]], stdout=subprocess.PIPE, stderr=subprocess.PIPE, timeout=120)
            evaluations += 1
            hdr, code = _strip_header(p.stdout.decode())
            if p.returncode != 0:
                viol(g, "cli", "command-line tool failed on an accepted grammar", "status 0", "status %d" % p.returncode)
            elif code.rstrip("\n") != lib_code.rstrip("\n"):
                viol(g, "cli", "code printed by the command-line tool differs from the library's", lib_code[:300], code[:300])
            else:
                # (the header is outside the statement - "after the header and prefix" - and its format is free: only counted)
                if "\n".join(hdr).strip() != g["header"].strip():
                    cls("info_cli_header_differs_from_library_header")
            cls("cli_route")
            # the same tool built with --release (no debug assertions, optimised): same bytes
            p2 = subprocess.run([cli_rel] + cargs + [g["file"]], stdout=subprocess.PIPE, stderr=subprocess.PIPE, timeout=120)
            evaluations += 1
            if p2.returncode != 0:
                viol(g, "cli-release", "release build of the command-line tool failed on an accepted grammar", "status 0", "status %d" % p2.returncode)
            elif _strip_header(p2.stdout.decode())[1].rstrip("\n") != lib_code.rstrip("\n"):
                viol(g, "cli-release", "code printed by the release build of the command-line tool differs from the library's (debug build)",
                     lib_code[:300], _strip_header(p2.stdout.decode())[1][:300])
            cls("cli_release_route")
            # the grammar handed over through a pipe (`... | peginator-cli /dev/stdin`): same bytes
            with open(g["file"], "rb") as gf:
                gbytes = gf.read()
            p3 = subprocess.run([cli] + cargs + ["/dev/stdin"], input=gbytes, stdout=subprocess.PIPE, stderr=subprocess.PIPE, timeout=120)
            evaluations += 1
            if p3.returncode != 0:
                viol(g, "cli-pipe", "the command-line tool fails when the grammar comes through a pipe (/dev/stdin)", "status 0", "status %d %s" % (p3.returncode, p3.stderr.decode()[:200]))
            elif _strip_header(p3.stdout.decode())[1].rstrip("\n") != lib_code.rstrip("\n"):
                viol(g, "cli-pipe", "code printed for a grammar read from a pipe differs from the library's", lib_code[:300], _strip_header(p3.stdout.decode())[1][:300])
            cls("cli_pipe_route")
        # build-script route
        if lib_code is not None:
            for prefix in ("", "use std::fmt;\n// second line"):
                dest = g["file"][:-5] + ".out.rs"
                if os.path.exists(dest):
                    os.unlink(dest)
                p = subprocess.run([front, "buildscript", g["file"], dest, "--prefix", prefix] + dargs, stdout=subprocess.PIPE, stderr=subprocess.PIPE, timeout=120)
                evaluations += 1
                if p.returncode != 0 or not os.path.exists(dest):
                    viol(g, "buildscript", "build-script helper failed on an accepted grammar", "Ok", p.stderr.decode()[:300])
                    continue
                with open(dest) as f:
                    got = f.read()
                if not got.startswith(g["header"]):
                    viol(g, "buildscript", "destination does not start with the source header", g["header"], got[:200])
                    continue
                rest = got[len(g["header"]):]
                while rest.startswith("//"):
                    rest = rest[rest.index("\n") + 1:]
                want = "\n" + prefix + "\n" + lib_code
                if rest != want:
                    viol(g, "buildscript", "destination is not header + prefix + the library's code", want[:300], rest[:300])
                cls("buildscript_route")
        # header purity
        key = text
        h = headers.setdefault(key, g["header"])
        if h != g["header"]:
            cls("info_equal_texts_different_headers")
        if g["multi_type_field"]:
            cls("multi_type_field")
        if g["cache_entries"] >= 2:
            cls(">=2_cache_entries")
        if g["multi_type_field"] or g["cache_entries"] >= 2:
            nontrivial.add(hashlib.sha1((text + g["derives"]).encode()).hexdigest())
            if len(samples) < 4:
                samples.append(dict(grammar=text, derives=g["derives"], routes=["library x%d processes" % K, "cli", "buildscript"]))
    # compile histories in one process (accepted texts and texts rejected half-way through a rule, in generated orders):
    # every accepted text must give the code a fresh process gave
    hist_out = os.path.join(d, "history.json")
    hp = subprocess.run([front, "c16-history", "--seed", str(seed), "--cases", str(2500 if tier == "quick" else 30000), "--dir", d, "--out", hist_out],
                        stdout=subprocess.PIPE, stderr=subprocess.PIPE, timeout=3000)
    hist_infra = None
    try:
        with open(hist_out) as f:
            hist = json.load(f)
        evaluations += hist["evaluations"]
        for c, k in hist["classes"].items():
            classes[c] = classes.get(c, 0) + k
        violations.extend(hist["violations"])
        hist_nontrivial = hist["distinct_nontrivial"]
        samples.extend(hist["samples"][:2])
    except Exception as e:
        hist_infra = "compile-history process failed: rc=%s %s" % (hp.returncode, hp.stderr.decode()[-300:])
        hist_nontrivial = 0
    shutil.rmtree(d, ignore_errors=True)
    # macro route: batch
    infra = None
    st = dict(quick=dict(count=48, cases=150), thorough=dict(count=160, cases=1500))[tier]
    out = batch.generate("macro", seed, st["count"], tier, 0, crates=8)
    macro_tot = None
    if out is None:
        infra = "genner failed (macro plan)"
    else:
        rc, errors, other = batch.build(out)
        with open(os.path.join(out, "models.json")) as f:
            models = {m["id"]: m for m in json.load(f)}
        for gid, errs in sorted(errors.items()):
            m = models.get(gid)
            role = m["spec"]["role"] if m else "?"
            if role == "macro":
                violations.append(dict(property="C16", kind="route", signature="route:macro_types", text=m["text"] if m else "",
                                       message="the peginate!() expansion does not compile against the type assertions the library output satisfies: %s" % errs[0][:300],
                                       expected="compiles", observed="; ".join(errs[:3])[:500]))
        if errors:
            bad = set(errors)
            # drop whole pairs
            for gid in list(bad):
                base = gid[:-1]
                bad.add(base + "a")
                bad.add(base + "b")
            batch.prune(out, bad)
            rc, errors2, other = batch.build(out)
        if rc != 0:
            infra = "macro batch build failed: %s" % (other[:2],)
        else:
            partials, hangs, died = batch.run_wave("C16", out, seed, st["cases"], 64)
            if hangs or died:
                infra = "macro batch process hung or died"
            macro_tot = batch.merge(partials)
            violations.extend(macro_tot["violations"])
    coverage = dict(evaluations=evaluations + (macro_tot["evaluations"] if macro_tot else 0),
                    distinct_nontrivial=len(nontrivial) + hist_nontrivial + (len(macro_tot["nontrivial"]) if macro_tot else 0),
                    rule=C16_RULE, samples=samples + (macro_tot["samples"][:4] if macro_tot else []), classes=classes,
                    grammars=len(index), fresh_processes_per_grammar=K,
                    macro_pairs=(macro_tot["grammars"] // 2 if macro_tot else 0), macro_evaluations=(macro_tot["evaluations"] if macro_tot else 0))
    return main.finish(prop, tier, seed, t0, coverage, violations, FRONT_ASSUMPTIONS + main.BATCH_ASSUMPTIONS[:1], infra or hist_infra)


HANDLERS["C16"] = run_c16


# ------------------------------------------------------------------------------------------------
# C17: the bootstrapped grammar parser is a fixpoint of the generator
# ------------------------------------------------------------------------------------------------
C17_RULE = ("per run, from the working tree: stage 2 = the tree's generator on grammar.ebnf; a copy of codegen/ with generated.rs replaced by stage 2 is "
            "built as a second crate and run on grammar.ebnf -> stage 3; stage 2 must equal stage 3 byte for byte; the CRC header line of the shipped "
            "generated.rs must match grammar.ebnf; regenerating through the command-line tool (as bootstrap.sh does), debug and --release build, in 6 (24) "
            "fresh processes each, must give the bytes of stage 2. Generated differential: the shipped front end and the stage-2 front end, linked into one binary, read "
            "every .ebnf file of the repository and generated grammar texts of all classes (valid in canonical and random layouts, restriction violators, "
            "token-level mutations, hostile identifiers, include cycles, nesting, arbitrary strings): both must return the same Debug rendering of Grammar "
            "or the same ParseError (position + specifics). Token equality shipped vs stage 2 is recorded as information. Non-trivial = text parses to >= 3 "
            "rules or fails beyond offset 0; distinct by text.")


def run_c17(prop, tier, seed):
    main = _main()
    t0 = time.time()
    if not ws.build_tools(("front",)):
        return 2
    front = ws.tool("front")
    ebnf = os.path.join(ws.REPO, "grammar.ebnf")
    p = subprocess.run([front, "codegen", ebnf, "--header"], stdout=subprocess.PIPE, stderr=subprocess.PIPE, text=True, timeout=300)
    if p.returncode != 0:
        v = [dict(property="C17", kind="bootstrap", signature="stage2_fails", message="the tree's generator cannot compile grammar.ebnf: %s" % p.stderr[-300:])]
        return main.finish(prop, tier, seed, t0, dict(evaluations=1, distinct_nontrivial=0, rule=C17_RULE, samples=[]), v, FRONT_ASSUMPTIONS, None)
    hdr, stage2 = _strip_header(p.stdout)
    violations = []
    # shipped header CRC
    shipped_path = os.path.join(ws.REPO, "codegen/src/grammar/generated.rs")
    with open(shipped_path) as f:
        shipped = f.read()
    shipped_hdr, shipped_code = _strip_header(shipped)
    # the shipped file names the grammar it was generated from by a CRC-32 in its header comment: compare the value, not
    # the wording of the line (a header whose text was reworded since the last bootstrap is still the same statement)
    import zlib, re
    with open(ebnf, "rb") as f:
        want_crc = "%08x" % (zlib.crc32(f.read()) & 0xffffffff)
    crc_lines = [l for l in shipped_hdr if re.search(r"crc", l, re.I) and re.search(r"\b[0-9a-fA-F]{8}\b", l)]
    crc_ok = (not crc_lines) or any(want_crc in l.lower() for l in crc_lines)
    if not crc_ok:
        violations.append(dict(property="C17", kind="bootstrap", signature="shipped_crc", message="the CRC in the header of the shipped generated.rs is not that of grammar.ebnf",
                               expected=want_crc, observed=crc_lines[0]))
    # the regeneration as bootstrap.sh does it - through the command-line tool - in fresh processes, with the debug and
    # the release build of the tool: always the bytes of stage 2
    cli_runs = 0
    for rel in (False, True):
        cli = build_cli(release=rel)
        if cli is None:
            return 2
        for k in range(6 if tier == "quick" else 24):
            pc = subprocess.run([cli, ebnf], stdout=subprocess.PIPE, stderr=subprocess.PIPE, text=True, timeout=300)
            cli_runs += 1
            which = "release" if rel else "debug"
            if pc.returncode != 0:
                violations.append(dict(property="C17", kind="bootstrap", signature="cli_regeneration_fails:" + which,
                                       message="the %s build of the command-line tool cannot regenerate the grammar parser from grammar.ebnf" % which,
                                       expected="status 0", observed="status %d %s" % (pc.returncode, pc.stderr[-200:])))
                break
            if _strip_header(pc.stdout)[1].rstrip("\n") != stage2.rstrip("\n"):
                got = _strip_header(pc.stdout)[1]
                i = next((i for i, (a, b) in enumerate(zip(got, stage2)) if a != b), min(len(got), len(stage2)))
                violations.append(dict(property="C17", kind="bootstrap", signature="cli_regeneration_differs:" + which,
                                       message="regenerating from grammar.ebnf with the %s build of the command-line tool (fresh process %d) gives other code than the library route" % (which, k),
                                       expected=stage2[max(0, i - 80):i + 120], observed=got[max(0, i - 80):i + 120]))
                break
    # informational: shipped file == rustfmt(stage 2) (bootstrap.sh pipes the CLI output through rustfmt)
    tokens_equal = None
    try:
        fp = subprocess.run(["rustfmt", "--edition", "2021"], input=stage2, stdout=subprocess.PIPE, stderr=subprocess.PIPE, text=True, timeout=120)
        if fp.returncode == 0:
            tokens_equal = fp.stdout.strip() == shipped_code.strip()
    except Exception:
        pass
    # build the stage-2 generator and the driver
    c17 = os.path.join(ws.WS, "c17")
    s2 = os.path.join(c17, "s2")
    drv = os.path.join(c17, "drv")
    shutil.rmtree(s2, ignore_errors=True)
    shutil.copytree(os.path.join(ws.REPO, "codegen"), s2, ignore=shutil.ignore_patterns("target"))
    with open(os.path.join(s2, "Cargo.toml")) as f:
        ct = f.read()
    ct = ct.replace('name = "peginator_codegen"', 'name = "peginator_codegen_s2"').replace('path = "../runtime"', 'path = "%s/runtime"' % ws.REPO)
    with open(os.path.join(s2, "Cargo.toml"), "w") as f:
        f.write(ct)
    with open(os.path.join(s2, "src/grammar/generated.rs"), "w") as f:
        f.write(stage2)
    os.makedirs(os.path.join(drv, "src"), exist_ok=True)
    ws.write_if_changed(os.path.join(drv, "Cargo.toml"), """[package]
name = "c17drv"
version = "0.1.0"
edition = "2021"

[dependencies]
verif_core = { path = "../../core" }
peginator_codegen = { path = "%s/codegen" }
peginator_codegen_s2 = { path = "../s2" }
peginator = { path = "%s/runtime" }
serde_json = "1"
""" % (ws.REPO, ws.REPO))
    with open(os.path.join(ws.HARNESS, "c17drv/main.rs")) as f:
        ws.write_if_changed(os.path.join(drv, "src/main.rs"), f.read())
    ws.materialise()
    bp = ws.cargo(["build", "--offline", "-p", "c17drv"], capture=True, timeout=1800)
    evaluations = 2 + cli_runs
    infra = None
    cov_extra = dict(stage2_bytes=len(stage2), shipped_tokens_equal_stage2=tokens_equal, shipped_crc_matches=crc_ok)
    dj = None
    if bp.returncode != 0:
        # the regenerated front end does not even compile inside the generator: the bootstrap is broken
        errs = [l for l in bp.stderr.splitlines() if l.startswith("error")][:5]
        violations.append(dict(property="C17", kind="bootstrap", signature="stage2_does_not_build",
                               message="a generator built around the regenerated grammar parser does not compile: %s" % "; ".join(errs)[:400]))
    else:
        drvbin = ws.tool("c17drv")
        p3 = subprocess.run([drvbin, "stage3", ebnf], stdout=subprocess.PIPE, stderr=subprocess.PIPE, text=True, timeout=300)
        if p3.returncode != 0:
            violations.append(dict(property="C17", kind="bootstrap", signature="stage3_fails", message="the stage-2 generator fails on grammar.ebnf: %s" % p3.stderr[-300:]))
        elif p3.stdout != stage2:
            i = next((i for i, (a, b) in enumerate(zip(p3.stdout, stage2)) if a != b), min(len(p3.stdout), len(stage2)))
            violations.append(dict(property="C17", kind="bootstrap", signature="stage2_ne_stage3", message="regenerating twice does not reach a fixpoint: stage 2 != stage 3 (first difference at byte %d)" % i,
                                   expected=stage2[max(0, i - 100):i + 200], observed=p3.stdout[max(0, i - 100):i + 200]))
        cases = 20000 if tier == "quick" else 600000
        out = os.path.join(ws.WORK, "c17diff.json")
        pd = subprocess.run([drvbin, "diff", "--seed", str(seed), "--cases", str(cases), "--out", out, "--ebnf-dir", ws.REPO], stdout=subprocess.DEVNULL, stderr=subprocess.PIPE, text=True, timeout=4 * 3600)
        if pd.returncode != 0 or not os.path.exists(out):
            infra = "c17drv diff failed: rc=%s %s" % (pd.returncode, pd.stderr[-300:])
        else:
            with open(out) as f:
                dj = json.load(f)
            violations.extend(dj["violations"])
    shutil.rmtree(c17, ignore_errors=True)
    ws.materialise()
    coverage = dict(evaluations=evaluations + (dj["evaluations"] if dj else 0), distinct_nontrivial=(dj["distinct_nontrivial"] if dj else 0), rule=C17_RULE,
                    samples=(dj["samples"] if dj else []) + [dict(stage2_equals_stage3=not any(v.get("signature") == "stage2_ne_stage3" for v in violations))],
                    classes=(dj["classes"] if dj else {}), **cov_extra)
    return main.finish(prop, tier, seed, t0, coverage, violations, FRONT_ASSUMPTIONS, infra)


HANDLERS["C17"] = run_c17


# ------------------------------------------------------------------------------------------------
# engine E3 "fuzz": libFuzzer campaigns (thorough tiers of C04, C11, C12, C15)
# ------------------------------------------------------------------------------------------------
def materialise_fuzz():
    fz = os.path.join(ws.WORK, "fuzz")
    os.makedirs(fz, exist_ok=True)
    with open(os.path.join(ws.HARNESS, "fuzz", "Cargo.toml.in")) as f:
        t = f.read().replace("@REPO@", ws.REPO).replace('path = "../front"', 'path = "%s/front"' % ws.WS).replace('path = "../core"', 'path = "%s/core"' % ws.WS)
    ws.write_if_changed(os.path.join(fz, "Cargo.toml"), t)
    link = os.path.join(fz, "fuzz_targets")
    want = os.path.join(ws.HARNESS, "fuzz", "fuzz_targets")
    if os.path.islink(link) and os.readlink(link) != want:
        os.unlink(link)
    if not os.path.exists(link):
        os.symlink(want, link)
    lock = os.path.join(fz, "Cargo.lock")
    if not os.path.exists(lock):
        shutil.copyfile(os.path.join(ws.HARNESS, "fuzz", "Cargo.lock") if os.path.exists(os.path.join(ws.HARNESS, "fuzz", "Cargo.lock")) else os.path.join(ws.HARNESS, "Cargo.lock"), lock)
    return fz


def fuzz_campaign(target, prop, seed, runs, max_len, seeds=(), dict_tokens=(), timeout=7200):
    """Build and run one libFuzzer target for a fixed number of runs from a fresh corpus.
    Returns (stats, violations, problem)."""
    ws.materialise()
    fz = materialise_fuzz()
    env = ws.cargo_env()
    env.pop("CARGO_TARGET_DIR", None)
    env["RUSTFLAGS"] = "--cfg peginator_verif -Awarnings"
    t0 = time.time()
    b = subprocess.run(["cargo", "+nightly", "fuzz", "build", "--fuzz-dir", fz, target], cwd=fz, env=env, stdout=subprocess.PIPE, stderr=subprocess.PIPE, text=True, timeout=3600)
    if b.returncode != 0:
        return None, [], "cargo fuzz build failed: %s" % b.stderr[-800:]
    log("[fuzz build %s] %.1fs" % (target, time.time() - t0))
    corpus = os.path.join(fz, "corpus_run", target)
    arts = os.path.join(fz, "artifacts_run", target)
    shutil.rmtree(corpus, ignore_errors=True)
    shutil.rmtree(arts, ignore_errors=True)
    os.makedirs(corpus)
    os.makedirs(arts)
    for i, s in enumerate(seeds):
        with open(os.path.join(corpus, "seed%04d" % i), "wb") as f:
            f.write(s if isinstance(s, bytes) else s.encode())
    args = ["cargo", "+nightly", "fuzz", "run", "--fuzz-dir", fz, target, corpus, "--",
            "-runs=%d" % runs, "-seed=%d" % (seed if seed != 0 else 1), "-len_control=0", "-timeout=25", "-max_len=%d" % max_len,
            "-artifact_prefix=%s/" % arts, "-print_final_stats=1"]
    if dict_tokens:
        dp = os.path.join(fz, "%s.dict" % target)
        with open(dp, "w") as f:
            for tkn in dict_tokens:
                enc = "".join(("\\\\" if ch == "\\" else '\\"' if ch == '"' else ch if 32 <= ord(ch) < 127 else "".join("\\x%02X" % b for b in ch.encode())) for ch in tkn)
                f.write('"%s"\n' % enc)
        args.append("-dict=%s" % dp)
    out_json = os.path.join(fz, "violation_%s.json" % target)
    if os.path.exists(out_json):
        os.unlink(out_json)
    env["VERIF_FUZZ_OUT"] = out_json
    t0 = time.time()
    try:
        r = subprocess.run(args, cwd=fz, env=env, stdout=subprocess.PIPE, stderr=subprocess.PIPE, text=True, timeout=timeout)
    except subprocess.TimeoutExpired:
        return None, [], "fuzz campaign %s exceeded its wall-clock budget (inconclusive)" % target
    err = r.stderr
    stats = dict(target=target, runs_requested=runs, wall_s=round(time.time() - t0, 1))
    for line in err.splitlines():
        if line.startswith("stat::"):
            k, v = line[6:].split(":")
            stats[k.strip()] = int(v.strip())
        if "cov:" in line and "ft:" in line:
            try:
                stats["cov"] = int(line.split("cov:")[1].split()[0])
                stats["ft"] = int(line.split("ft:")[1].split()[0])
            except Exception:
                pass
    stats["corpus_files"] = len(os.listdir(corpus))
    violations = []
    crash_files = sorted(os.listdir(arts))
    if os.path.exists(out_json):
        with open(out_json) as f:
            violations.append(json.load(f))
    elif crash_files:
        # a crash without an oracle record: abort / stack overflow / libFuzzer timeout inside the tested code
        cf = os.path.join(arts, crash_files[0])
        with open(cf, "rb") as f:
            data = f.read()
        kind = "timeout" if crash_files[0].startswith("timeout") else "crash"
        if kind == "timeout":
            # a unit that exceeded libFuzzer's 25 s is re-run alone with a 300 s limit: wall-clock time under load is not a
            # correctness signal. Completing now = a slow unit (counted); not completing = a hang, which is a violation only
            # for the property that is about termination (C15), otherwise the run is inconclusive.
            try:
                rr = subprocess.run(["cargo", "+nightly", "fuzz", "run", "--fuzz-dir", fz, target, cf, "--", "-timeout=300", "-runs=1"],
                                    cwd=fz, env=env, stdout=subprocess.PIPE, stderr=subprocess.PIPE, text=True, timeout=400)
                completes = rr.returncode == 0
            except subprocess.TimeoutExpired:
                completes = False
            if completes and not os.path.exists(out_json):
                stats["slow_units_over_25s"] = 1
                return stats, [], None
            if os.path.exists(out_json):
                with open(out_json) as f:
                    return stats, [json.load(f)], None
            if prop != "C15":
                return stats, [], "libFuzzer unit of %s does not complete within 300 s (inconclusive); input %s" % (target, cf)
        keep = os.path.join(ws.VERIF, "replays", "new") if ws.TAG == "main" else os.path.join(ws.WORK, "replays_new")
        os.makedirs(keep, exist_ok=True)
        kept = os.path.join(keep, "%s_%s_%s" % (prop, target, crash_files[0][:40]))
        shutil.copyfile(cf, kept)
        violations.append(dict(property=prop, kind="fuzz_" + kind, signature="Fuzz:%s:%s" % (target, kind), artifact=kept,
                               text=data.decode("utf-8", "replace")[:2000],
                               message="libFuzzer target %s: %s without an oracle record (process death or hang inside the tested code); input saved" % (target, kind),
                               expected="code or error value", observed=err[-600:]))
    elif r.returncode != 0:
        return stats, [], "fuzz run %s failed: %s" % (target, err[-600:])
    return stats, violations, None


def with_fuzz(handler, target, prop, runs, max_len, seed_fn=None, dict_tokens=()):
    """thorough tier = the in-process handler + a coverage-guided campaign; violations of the campaign are reported through a second finish() pass"""
    def h(prop_, tier, seed):
        rc = handler(prop_, tier, seed)
        if tier != "thorough" or rc == 1:
            return rc
        main = _main()
        t0 = time.time()
        seeds = seed_fn() if seed_fn else []
        stats, violations, problem = fuzz_campaign(target, prop, seed, runs, max_len, seeds, dict_tokens)
        evp = os.path.join(ws.VERIF, "evidence", prop + ".json") if ws.TAG == "main" else os.path.join(ws.WORK, "evidence", prop + ".json")
        try:
            with open(evp) as f:
                ev = json.load(f)
        except Exception:
            return rc
        cov = ev["coverage"]
        if stats:
            cov["fuzz_campaign"] = stats
            cov["evaluations"] += stats.get("number_of_executed_units", 0)
        if problem:
            cov["fuzz_campaign_problem"] = problem
        known = main.load_known()
        new = [v for v in violations if main.match_known(known, prop, v) is None]
        for v in new:
            path = main.write_replay(prop, v)
            print("VIOLATION property=%s replay=%s" % (prop, path))
            log("  " + (v.get("message") or "")[:300])
        ev["violations"] = ev.get("violations", 0) + len(new)
        ev["wall_s"] = round(ev.get("wall_s", 0) + time.time() - t0, 2)
        with open(evp, "w") as f:
            json.dump(ev, f, indent=1, ensure_ascii=False)
        if new:
            return 1
        if problem and rc == 0:
            log("INCONCLUSIVE (fuzz part): " + problem)
            return 2
        return rc
    return h


GRAMMAR_TOKENS = ["@export", "@string", "@char", "@no_skip_ws", "@position", "@memoize", "@leftrec", "@check(", "@extern(", "->", "::", "..", "@:", "}+",
                  "\\u{", "\\x", "\\U00", "\\u", "i'", "i\"", "Whitespace", "char", ";\n", " = ", " | ", ">", "!", "&", "$", "*"]


def repo_grammar_seeds():
    out = []
    for root, dirs, files in os.walk(ws.REPO):
        dirs[:] = [d for d in dirs if d not in ("target", ".git")]
        for fn in files:
            if fn.endswith(".ebnf") or fn.endswith(".not_ebnf"):
                try:
                    with open(os.path.join(root, fn), "rb") as f:
                        out.append(f.read())
                except OSError:
                    pass
    # plus generated texts of all classes
    d = os.path.join(ws.WORK, "fuzzseeds")
    shutil.rmtree(d, ignore_errors=True)
    subprocess.run([ws.tool("front"), "texts", "--seed", "1", "--cases", "300", "--dir", d], check=False)
    try:
        with open(os.path.join(d, "texts.json")) as f:
            for t in json.load(f):
                if t["class"] != "Nesting" and len(t["text"]) < 1500:
                    out.append(t["text"].encode())
    except Exception:
        pass
    shutil.rmtree(d, ignore_errors=True)
    return out


HANDLERS["C11"] = with_fuzz(HANDLERS["C11"], "fz_pretty", "C11", 3000000, 400, lambda: [b"\x00\x00\x00a\nb", b"\xff\xff\x01\xc3\xa9\r\n\n", b"\x80\x00\x02"])
HANDLERS["C12"] = with_fuzz(HANDLERS["C12"], "fz_frontend", "C12", 150000, 900)
HANDLERS["C15"] = with_fuzz(HANDLERS["C15"], "fz_total", "C15", 400000, 1200, repo_grammar_seeds, GRAMMAR_TOKENS)
