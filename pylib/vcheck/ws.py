"""Workspace materialisation and cargo invocation.

The harness sources live in /verif/harness. For each repository path that is checked (default /repo,
override VERIF_REPO for scratch copies) a cargo workspace is materialised under /verif/work/<tag>/ws with
manifests generated from the *.toml.in templates (path dependencies point into that repository) and `src`
symlinks back to /verif/harness/<crate>/src. Each tag has its own target directory, so builds of different
repository copies never share fingerprints.
"""
import os, sys, json, subprocess, hashlib, shutil, fcntl, time

VERIF = os.path.dirname(os.path.dirname(os.path.dirname(os.path.abspath(__file__))))
HARNESS = os.path.join(VERIF, "harness")
REPO = os.path.realpath(os.environ.get("VERIF_REPO", "/repo"))
TAG = "main" if REPO == "/repo" else "r" + hashlib.sha1(REPO.encode()).hexdigest()[:10]
WORK = os.path.join(VERIF, "work", TAG)
WS = os.path.join(WORK, "ws")
TARGET = os.path.join(WORK, "target")
CRATES = ["core", "genner", "batchrt", "front", "frontnc"]


def log(*a):
    print(*a, file=sys.stderr, flush=True)


def cargo_env():
    env = dict(os.environ)
    env["CARGO_NET_OFFLINE"] = "true"
    env["CARGO_TARGET_DIR"] = TARGET
    env["RUSTFLAGS"] = "--cfg peginator_verif -Awarnings"
    env.pop("RUSTC_WRAPPER", None)
    env["CARGO_TERM_COLOR"] = "never"
    return env


def write_if_changed(path, content):
    try:
        with open(path) as f:
            if f.read() == content:
                return False
    except FileNotFoundError:
        pass
    os.makedirs(os.path.dirname(path), exist_ok=True)
    tmp = path + ".tmp%d" % os.getpid()
    with open(tmp, "w") as f:
        f.write(content)
    os.replace(tmp, path)
    return True


_lock_file = None


def lock():
    """Serialise runs that share a work directory."""
    global _lock_file
    os.makedirs(WORK, exist_ok=True)
    _lock_file = open(os.path.join(WORK, "lock"), "w")
    fcntl.flock(_lock_file, fcntl.LOCK_EX)


def batch_members():
    """existing generated batch crates: ws/batch/<profile>/<crate>"""
    out = []
    bdir = os.path.join(WS, "batch")
    if os.path.isdir(bdir):
        for prof in sorted(os.listdir(bdir)):
            pdir = os.path.join(bdir, prof)
            if not os.path.isdir(pdir):
                continue
            for c in sorted(os.listdir(pdir)):
                if os.path.isfile(os.path.join(pdir, c, "Cargo.toml")):
                    out.append("batch/%s/%s" % (prof, c))
    for extra in ("c17/s2", "c17/drv"):
        if os.path.isfile(os.path.join(WS, extra, "Cargo.toml")):
            out.append(extra)
    return out


def materialise():
    os.makedirs(WS, exist_ok=True)
    for c in CRATES:
        cdir = os.path.join(WS, c)
        os.makedirs(cdir, exist_ok=True)
        with open(os.path.join(HARNESS, c, "Cargo.toml.in")) as f:
            t = f.read().replace("@REPO@", REPO)
        write_if_changed(os.path.join(cdir, "Cargo.toml"), t)
        link = os.path.join(cdir, "src")
        want = os.path.join(HARNESS, c, "src")
        if os.path.islink(link):
            if os.readlink(link) != want:
                os.unlink(link)
                os.symlink(want, link)
        elif os.path.exists(link):
            shutil.rmtree(link)
            os.symlink(want, link)
        else:
            os.symlink(want, link)
    members = "".join(', "%s"' % m for m in batch_members())
    with open(os.path.join(HARNESS, "ws.toml.in")) as f:
        t = f.read().replace("@BATCH_MEMBERS@", members)
    write_if_changed(os.path.join(WS, "Cargo.toml"), t)
    lock_dst = os.path.join(WS, "Cargo.lock")
    lock_src = os.path.join(HARNESS, "Cargo.lock")
    if os.path.exists(lock_src):
        with open(lock_src) as f:
            want_lock = f.read()
        if not os.path.exists(lock_dst):
            with open(lock_dst, "w") as f:
                f.write(want_lock)


def cargo(args, capture=False, json_messages=False, timeout=None):
    cmd = ["cargo"] + args
    if json_messages:
        cmd += ["--message-format=json"]
    t0 = time.time()
    p = subprocess.run(cmd, cwd=WS, env=cargo_env(), stdout=subprocess.PIPE if (capture or json_messages) else None,
                       stderr=subprocess.PIPE if capture or json_messages else None, text=True, timeout=timeout)
    log("[cargo %s] rc=%d %.1fs" % (" ".join(args[:6]), p.returncode, time.time() - t0))
    return p


def build_tools(pkgs=("genner", "front")):
    materialise()
    args = ["build", "--offline"]
    for p in pkgs:
        args += ["-p", p]
    p = cargo(args, capture=True)
    if p.returncode != 0:
        # never dump one-line generated code; harness sources are normal rust so stderr is fine
        log(p.stderr[-6000:])
        return False
    return True


def tool(name, profile=None):
    return os.path.join(TARGET, profile or "debug", name)
