// shared by the targets (included with include!)
fn report(v: serde_json::Value) -> ! {
    if let Ok(p) = std::env::var("VERIF_FUZZ_OUT") {
        let _ = std::fs::write(p, serde_json::to_string(&v).unwrap());
    }
    eprintln!("VERIF-FUZZ-VIOLATION {}", v["message"].as_str().unwrap_or(""));
    std::process::abort()
}

fn quiet_panics() {
    // libfuzzer-sys installs a hook that aborts on any panic; the oracles use catch_unwind
    std::panic::set_hook(Box::new(|_| {}));
}
