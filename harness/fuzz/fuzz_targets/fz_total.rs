#![no_main]
//! C15, coverage-guided: the bytes ARE the grammar text (seed corpus: every .ebnf of the repository + printed model
//! grammars + restriction violators); from_str + generate_code in-process under catch_unwind: outcome must be code or Err.
//! The region of the listed deep-nesting finding is excluded by construction (bracket nesting > 200 levels).
use libfuzzer_sys::fuzz_target;
include!("common.rs");

fn max_nesting(s: &str) -> usize {
    let (mut d, mut m) = (0usize, 0usize);
    for c in s.chars() {
        match c {
            '(' | '[' | '{' => {
                d += 1;
                m = m.max(d)
            }
            ')' | ']' | '}' => d = d.saturating_sub(1),
            _ => {}
        }
    }
    m
}

fuzz_target!(|data: &[u8]| {
    quiet_panics();
    let text = match std::str::from_utf8(data) {
        Ok(t) => t,
        Err(_) => return,
    };
    if max_nesting(text) > 200 {
        return;
    }
    let derives = vec!["Debug".to_string(), "Clone".to_string()];
    let (kind, msg, _code) = front::c15::compile(text, &derives);
    if kind == "panic" {
        report(serde_json::json!({"property": "C15", "kind": "compile", "class": "Fuzz", "sub": "", "text": text, "derives": derives, "expect": "Any",
            "signature": "Fuzz::panic", "message": format!("the compiler panicked: {msg}"), "expected": "code or error value", "observed": "panic"}));
    }
});
