#![no_main]
//! C04 (runtime layer), coverage-guided: bytes -> (text, offset, matcher, parameters) vs chars()-based reference
use libfuzzer_sys::fuzz_target;
include!("common.rs");

fuzz_target!(|data: &[u8]| {
    quiet_panics();
    let case = front::c04rt::build(data);
    if let Err(f) = front::c04rt::check(&case) {
        report(serde_json::json!({"property": "C04", "kind": "runtime", "text": case.text, "offset": case.offset, "matcher": case.matcher, "lit": case.lit,
            "c1": case.c1.to_string(), "c2": case.c2.to_string(), "message": f.msg, "expected": f.expected, "observed": f.observed}));
    }
});
