#![no_main]
//! C11, coverage-guided: bytes -> (text, boundary position, file?, colours) -> PrettyParseError vs arithmetic oracle
use libfuzzer_sys::fuzz_target;
include!("common.rs");

fuzz_target!(|data: &[u8]| {
    quiet_panics();
    if data.len() < 3 {
        return;
    }
    let text = String::from_utf8_lossy(&data[3..]).to_string();
    let bounds: Vec<usize> = (0..=text.len()).filter(|i| text.is_char_boundary(*i)).collect();
    let k = ((data[0] as usize) << 8 | data[1] as usize) * bounds.len() >> 16;
    let case = front::c11::Case {
        text: text.clone(),
        pos: bounds[k],
        file: if data[2] & 1 == 1 { Some("f.ebnf".to_string()) } else { None },
        color: data[2] & 2 == 2,
    };
    if let Err(f) = front::c11::check(&case) {
        report(serde_json::json!({"property": "C11", "kind": "case", "text": case.text, "pos": case.pos, "file": case.file, "color": case.color,
            "message": f.msg, "expected": f.expected, "observed": f.observed, "signature": front::c11::signature(&case)}));
    }
});
