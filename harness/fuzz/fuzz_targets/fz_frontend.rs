#![no_main]
//! C12, coverage-guided over the 3 400-line generated grammar parser: bytes -> (model, layout) -> print -> parse -> lift -> compare
use libfuzzer_sys::fuzz_target;
include!("common.rs");

fuzz_target!(|data: &[u8]| {
    quiet_panics();
    if let Err(v) = front::c12::one_case(data) {
        report(v);
    }
});
