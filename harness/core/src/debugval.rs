//! Parser for `{:?}` (non-pretty Debug) renderings of generated ASTs, so the harness can analyse
//! values structurally without knowing their Rust types.
#[derive(Debug, Clone, PartialEq, Eq)]
pub enum DV {
    Str(String),
    Char(char),
    Range(usize, usize),
    Num(String),
    Unit(String),
    Struct { name: String, fields: Vec<(String, DV)> },
    Tuple { name: String, items: Vec<DV> },
    List(Vec<DV>),
}

pub fn parse(s: &str) -> Result<DV, String> {
    let mut p = P { s, i: 0 };
    let v = p.value()?;
    p.ws();
    if p.i != s.len() {
        return Err(format!("trailing text at {}", p.i));
    }
    Ok(v)
}

struct P<'a> {
    s: &'a str,
    i: usize,
}

impl<'a> P<'a> {
    fn peek(&self) -> Option<char> {
        self.s[self.i..].chars().next()
    }
    fn bump(&mut self) -> Option<char> {
        let c = self.peek()?;
        self.i += c.len_utf8();
        Some(c)
    }
    fn ws(&mut self) {
        while self.peek() == Some(' ') {
            self.i += 1;
        }
    }
    fn eat(&mut self, t: &str) -> bool {
        if self.s[self.i..].starts_with(t) {
            self.i += t.len();
            true
        } else {
            false
        }
    }
    fn escape(&mut self) -> Result<char, String> {
        match self.bump() {
            Some('n') => Ok('\n'),
            Some('r') => Ok('\r'),
            Some('t') => Ok('\t'),
            Some('0') => Ok('\0'),
            Some('\\') => Ok('\\'),
            Some('\'') => Ok('\''),
            Some('"') => Ok('"'),
            Some('u') => {
                if !self.eat("{") {
                    return Err("bad \\u".into());
                }
                let start = self.i;
                while self.peek().map_or(false, |c| c.is_ascii_hexdigit()) {
                    self.i += 1;
                }
                let v = u32::from_str_radix(&self.s[start..self.i], 16).map_err(|e| e.to_string())?;
                if !self.eat("}") {
                    return Err("bad \\u end".into());
                }
                char::from_u32(v).ok_or_else(|| "bad code point".to_string())
            }
            other => Err(format!("bad escape {:?}", other)),
        }
    }
    fn value(&mut self) -> Result<DV, String> {
        self.ws();
        match self.peek() {
            None => Err("eof".into()),
            Some('"') => {
                self.i += 1;
                let mut out = String::new();
                loop {
                    match self.bump() {
                        None => return Err("unterminated string".into()),
                        Some('"') => break,
                        Some('\\') => out.push(self.escape()?),
                        Some(c) => out.push(c),
                    }
                }
                Ok(DV::Str(out))
            }
            Some('\'') => {
                self.i += 1;
                let c = match self.bump() {
                    Some('\\') => self.escape()?,
                    Some(c) => c,
                    None => return Err("eof in char".into()),
                };
                if !self.eat("'") {
                    return Err("unterminated char".into());
                }
                Ok(DV::Char(c))
            }
            Some('[') => {
                self.i += 1;
                let items = self.list(']')?;
                Ok(DV::List(items))
            }
            Some('(') => {
                self.i += 1;
                let items = self.list(')')?;
                Ok(DV::Tuple { name: String::new(), items })
            }
            Some(c) if c.is_ascii_digit() || c == '-' => {
                let start = self.i;
                self.i += 1;
                while self.peek().map_or(false, |c| c.is_ascii_digit()) {
                    self.i += 1;
                }
                let a = &self.s[start..self.i];
                if self.s[self.i..].starts_with("..") && !self.s[self.i..].starts_with("...") {
                    self.i += 2;
                    let st2 = self.i;
                    while self.peek().map_or(false, |c| c.is_ascii_digit()) {
                        self.i += 1;
                    }
                    let b = &self.s[st2..self.i];
                    let a: usize = a.parse().map_err(|_| "bad range start".to_string())?;
                    let b: usize = b.parse().map_err(|_| "bad range end".to_string())?;
                    Ok(DV::Range(a, b))
                } else {
                    Ok(DV::Num(a.to_string()))
                }
            }
            Some(c) if c.is_alphabetic() || c == '_' => {
                let start = self.i;
                while self.peek().map_or(false, |c| c.is_alphanumeric() || c == '_') {
                    self.i += self.peek().unwrap().len_utf8();
                }
                let name = self.s[start..self.i].to_string();
                let save = self.i;
                self.ws();
                if self.eat("{") {
                    let mut fields = vec![];
                    loop {
                        self.ws();
                        if self.eat("}") {
                            break;
                        }
                        let fs = self.i;
                        while self.peek().map_or(false, |c| c.is_alphanumeric() || c == '_') {
                            self.i += self.peek().unwrap().len_utf8();
                        }
                        let fname = self.s[fs..self.i].to_string();
                        self.ws();
                        if !self.eat(":") {
                            return Err(format!("expected ':' at {}", self.i));
                        }
                        let v = self.value()?;
                        fields.push((fname, v));
                        self.ws();
                        if self.eat(",") {
                            continue;
                        }
                        self.ws();
                        if self.eat("}") {
                            break;
                        }
                        return Err(format!("expected ',' or '}}' at {}", self.i));
                    }
                    Ok(DV::Struct { name, fields })
                } else if self.peek() == Some('(') && save == self.i {
                    self.i += 1;
                    let items = self.list(')')?;
                    Ok(DV::Tuple { name, items })
                } else {
                    self.i = save;
                    Ok(DV::Unit(name))
                }
            }
            Some(c) => Err(format!("unexpected {:?} at {}", c, self.i)),
        }
    }
    fn list(&mut self, close: char) -> Result<Vec<DV>, String> {
        let mut items = vec![];
        loop {
            self.ws();
            if self.peek() == Some(close) {
                self.i += 1;
                break;
            }
            items.push(self.value()?);
            self.ws();
            if self.eat(",") {
                continue;
            }
            if self.peek() == Some(close) {
                self.i += 1;
                break;
            }
            return Err(format!("expected ',' or {:?} at {}", close, self.i));
        }
        Ok(items)
    }
}

impl DV {
    pub fn walk<'a>(&'a self, path: &mut Vec<String>, f: &mut dyn FnMut(&[String], &'a DV)) {
        f(path, self);
        match self {
            DV::Struct { fields, .. } => {
                for (n, v) in fields {
                    path.push(n.clone());
                    v.walk(path, f);
                    path.pop();
                }
            }
            DV::Tuple { items, .. } | DV::List(items) => {
                for (i, v) in items.iter().enumerate() {
                    path.push(i.to_string());
                    v.walk(path, f);
                    path.pop();
                }
            }
            _ => {}
        }
    }

    pub fn position(&self) -> Option<(usize, usize)> {
        match self {
            DV::Struct { fields, .. } => fields.iter().find_map(|(n, v)| match (n.as_str(), v) {
                ("position", DV::Range(a, b)) => Some((*a, *b)),
                _ => None,
            }),
            _ => None,
        }
    }

    /// first difference between two trees as a path
    pub fn diff(&self, other: &DV) -> Option<String> {
        fn go(a: &DV, b: &DV, path: &mut Vec<String>) -> Option<String> {
            match (a, b) {
                (DV::Struct { name: n1, fields: f1 }, DV::Struct { name: n2, fields: f2 }) => {
                    if n1 != n2 || f1.len() != f2.len() {
                        return Some(format!("{}: {:?} vs {:?}", path.join("."), a.head(), b.head()));
                    }
                    for ((k1, v1), (k2, v2)) in f1.iter().zip(f2) {
                        if k1 != k2 {
                            return Some(format!("{}: field {} vs {}", path.join("."), k1, k2));
                        }
                        path.push(k1.clone());
                        if let Some(d) = go(v1, v2, path) {
                            return Some(d);
                        }
                        path.pop();
                    }
                    None
                }
                (DV::Tuple { name: n1, items: i1 }, DV::Tuple { name: n2, items: i2 }) if n1 == n2 && i1.len() == i2.len() => {
                    for (i, (x, y)) in i1.iter().zip(i2).enumerate() {
                        path.push(format!("{n1}.{i}"));
                        if let Some(d) = go(x, y, path) {
                            return Some(d);
                        }
                        path.pop();
                    }
                    None
                }
                (DV::List(i1), DV::List(i2)) if i1.len() == i2.len() => {
                    for (i, (x, y)) in i1.iter().zip(i2).enumerate() {
                        path.push(format!("[{i}]"));
                        if let Some(d) = go(x, y, path) {
                            return Some(d);
                        }
                        path.pop();
                    }
                    None
                }
                _ => {
                    if a == b {
                        None
                    } else {
                        Some(format!("{}: {} vs {}", path.join("."), a.head(), b.head()))
                    }
                }
            }
        }
        go(self, other, &mut vec![])
    }

    fn head(&self) -> String {
        match self {
            DV::Struct { name, fields } => format!("{name}{{{} fields}}", fields.len()),
            DV::Tuple { name, items } => format!("{name}({} items)", items.len()),
            DV::List(items) => format!("[{} items]", items.len()),
            other => format!("{:?}", other),
        }
    }
}
