//! Reference PEG interpreter over the model (dynamic oracle). Written from doc/syntax.md and the
//! property statements; see DESIGN.md Appendix A.
use crate::hooks::{self, HookCall};
use crate::model::*;
use crate::shapes::{Arity, Kind, Shapes, OVERRIDE};
use std::collections::{BTreeMap, BTreeSet, HashMap};

#[derive(Debug, Clone, PartialEq, Eq)]
pub enum Val {
    Char(char),
    Str(String),
    /// already rendered Debug text (extern values)
    Raw(String),
    Unit(String),
    Struct { name: String, fields: Vec<(String, Val)>, pos: Option<(usize, usize)> },
    Variant(String, Box<Val>),
    Opt(Option<Box<Val>>),
    List(Vec<Val>),
}

impl Val {
    pub fn render(&self, out: &mut String) {
        use std::fmt::Write;
        match self {
            Val::Char(c) => write!(out, "{:?}", c).unwrap(),
            Val::Str(s) => write!(out, "{:?}", s).unwrap(),
            Val::Raw(s) => out.push_str(s),
            Val::Unit(n) => out.push_str(n),
            Val::Struct { name, fields, pos } => {
                out.push_str(name);
                out.push_str(" { ");
                let mut first = true;
                for (n, v) in fields {
                    if !first {
                        out.push_str(", ");
                    }
                    first = false;
                    out.push_str(n);
                    out.push_str(": ");
                    v.render(out);
                }
                if let Some((s, e)) = pos {
                    if !first {
                        out.push_str(", ");
                    }
                    write!(out, "position: {}..{}", s, e).unwrap();
                }
                out.push_str(" }");
            }
            Val::Variant(n, v) => {
                out.push_str(n);
                out.push('(');
                v.render(out);
                out.push(')');
            }
            Val::Opt(None) => out.push_str("None"),
            Val::Opt(Some(v)) => {
                out.push_str("Some(");
                v.render(out);
                out.push(')');
            }
            Val::List(vs) => {
                out.push('[');
                for (i, v) in vs.iter().enumerate() {
                    if i > 0 {
                        out.push_str(", ");
                    }
                    v.render(out);
                }
                out.push(']');
            }
        }
    }
    pub fn rendered(&self) -> String {
        let mut s = String::new();
        self.render(&mut s);
        s
    }
}

#[derive(Debug, Clone, PartialEq, Eq)]
pub enum Ev {
    Start { rule: String, pos: usize, abandoned: bool },
    Result { ok: bool, abandoned: bool },
}

#[derive(Debug, Default, Clone)]
pub struct Stats {
    /// alternatives / optionals / closure iterations abandoned after consuming >= 1 byte
    pub backtracks_after_progress: usize,
    pub closure_iterations: usize,
    pub closure_partial_stop: usize,
    pub lookaheads: usize,
    pub abandoned_bindings: usize,
    pub ws_skipped: usize,
    pub multibyte_consumed: usize,
    pub multibyte_at_terminal: usize,
    pub range_endpoint_hits: usize,
    pub insensitive_hits: usize,
    pub growth_steps: usize,
    pub growth_entered: usize,
    pub hooks_failed: usize,
    pub memo_revisits: usize,
    pub memo_revisit_first_failed: usize,
    pub rule_calls: usize,
    /// deepest rule nesting reached
    pub max_rule_depth: usize,
    pub enum_fields_set: usize,
    pub multi_part_fields: usize,
    pub includes_entered: usize,
    pub includes_nested: usize,
    pub ws_gap_sites: usize,
    pub ws_nonempty_in_nested: usize,
    pub near_miss_seen: usize,
    pub checks_called: usize,
    pub externs_called: usize,
}

#[derive(Debug, Clone)]
pub struct Outcome {
    pub ok: bool,
    /// rendered Debug text of the value (ok) — empty on failure
    pub value: String,
    pub consumed: usize,
    /// furthest counted failure: (pos, specs at pos)
    pub far: Option<(usize, BTreeSet<String>)>,
    /// every failed attempt
    pub all: BTreeSet<(usize, String)>,
    /// hook calls in evaluation order (short-circuit semantics)
    pub hooks: Vec<HookCall>,
    /// additional hook calls an implementation may legitimately make (checks after the first failing one)
    pub hooks_optional: Vec<HookCall>,
    pub trace: Vec<Ev>,
    /// (rule, pos) -> (evaluations, first evaluation failed)
    pub evals: BTreeMap<(String, usize), (usize, bool)>,
    pub stats: Stats,
    pub diverged: bool,
}

pub struct Cfg {
    pub salt: u64,
    pub fuel: usize,
    pub record_trace: bool,
    /// answer revisits of @memoize rules from a table (packrat model used by C06)
    pub memo_aware: bool,
}

impl Default for Cfg {
    fn default() -> Self {
        Cfg { salt: 0, fuel: 120_000, record_trace: true, memo_aware: false }
    }
}

type Binding = (String, String, Val);
type Res = Result<(usize, Vec<Binding>), ()>;

struct Far {
    pos: usize,
    specs: BTreeSet<String>,
}

pub struct Interp<'a> {
    g: &'a Grammar,
    shapes: &'a Shapes,
    input: &'a str,
    cfg: Cfg,
    custom_ws: bool,
    far: Option<Far>,
    all: BTreeSet<(usize, String)>,
    hooks: Vec<HookCall>,
    trace: Vec<Ev>,
    evals: BTreeMap<(String, usize), (usize, bool)>,
    table: HashMap<(String, usize), Result<(usize, Val), ()>>,
    stats: Stats,
    fuel: usize,
    diverged: bool,
    depth: usize,
    rule_depth: usize,
    in_lookahead: usize,
    nest: usize,
    prog: usize,
    binds: usize,
    hooks_optional: Vec<HookCall>,
}

/// nesting of evaluations (expressions and rules); the worker threads have 1 GB of stack
const MAX_DEPTH: usize = 60_000;

impl<'a> Interp<'a> {
    pub fn new(g: &'a Grammar, shapes: &'a Shapes, input: &'a str, cfg: Cfg) -> Self {
        let fuel = cfg.fuel;
        Interp {
            g,
            shapes,
            input,
            cfg,
            custom_ws: g.has_custom_ws(),
            far: None,
            all: BTreeSet::new(),
            hooks: vec![],
            trace: vec![],
            evals: BTreeMap::new(),
            table: HashMap::new(),
            stats: Stats::default(),
            fuel,
            diverged: false,
            depth: 0,
            rule_depth: 0,
            in_lookahead: 0,
            nest: 0,
            prog: 0,
            binds: 0,
            hooks_optional: vec![],
        }
    }

    pub fn run(mut self, rule: &str) -> Outcome {
        let r = self.call(rule, 0);
        let (ok, value, consumed) = match r {
            Ok((q, v)) => (true, v.rendered(), q),
            Err(()) => (false, String::new(), 0),
        };
        Outcome {
            ok,
            value,
            consumed,
            far: self.far.map(|f| (f.pos, f.specs)),
            all: self.all,
            hooks: self.hooks,
            hooks_optional: self.hooks_optional,
            trace: self.trace,
            evals: self.evals,
            stats: self.stats,
            diverged: self.diverged,
        }
    }

    fn note(&mut self, pos: usize, spec: String) {
        self.all.insert((pos, spec.clone()));
        match &mut self.far {
            Some(f) if f.pos > pos => {}
            Some(f) if f.pos == pos => {
                f.specs.insert(spec);
            }
            _ => {
                self.far = Some(Far { pos, specs: [spec].into_iter().collect() });
            }
        }
    }

    fn snapshot(&self) -> Option<(usize, BTreeSet<String>)> {
        self.far.as_ref().map(|f| (f.pos, f.specs.clone()))
    }
    fn restore(&mut self, s: Option<(usize, BTreeSet<String>)>) {
        self.far = s.map(|(pos, specs)| Far { pos, specs });
    }

    fn tick(&mut self) -> bool {
        if self.fuel == 0 {
            self.diverged = true;
            return false;
        }
        self.fuel -= 1;
        true
    }

    fn next_char(&self, p: usize) -> Option<char> {
        self.input[p..].chars().next()
    }

    fn skip(&mut self, pos: usize, skip: bool) -> Result<usize, ()> {
        if !skip {
            return Ok(pos);
        }
        self.stats.ws_gap_sites += 1;
        let q = if self.custom_ws {
            match self.call("Whitespace", pos) {
                Ok((q, _)) => q,
                // a failing Whitespace rule makes the token fail (generated Whitespace rules are total)
                Err(()) => return Err(()),
            }
        } else {
            let b = self.input.as_bytes();
            let mut q = pos;
            while q < b.len() && matches!(b[q], 0x20 | 0x09 | 0x0A | 0x0C | 0x0D) {
                q += 1;
            }
            q
        };
        if q > pos {
            self.stats.ws_skipped += 1;
            if self.nest > 0 {
                self.stats.ws_nonempty_in_nested += 1;
            }
        }
        if let Some(c) = self.next_char(q) {
            if matches!(c, '\u{0B}' | '\u{A0}' | '\u{2003}' | '\u{FEFF}' | '\u{85}' | '\u{2028}') {
                self.stats.near_miss_seen += 1;
            }
        }
        Ok(q)
    }

    fn mark_abandoned(&mut self, from: usize) {
        for e in &mut self.trace[from..] {
            match e {
                Ev::Start { abandoned, .. } | Ev::Result { abandoned, .. } => *abandoned = true,
            }
        }
    }

    fn eval(&mut self, e: &Expr, pos: usize, skip: bool) -> Res {
        if !self.tick() {
            return Err(());
        }
        self.depth += 1;
        if self.depth > MAX_DEPTH {
            self.diverged = true;
            self.depth -= 1;
            return Err(());
        }
        let r = self.eval_inner(e, pos, skip);
        self.depth -= 1;
        r
    }

    fn eval_inner(&mut self, e: &Expr, pos: usize, skip: bool) -> Res {
        match e {
            Expr::Lit { s, insensitive } => {
                let p = self.skip(pos, skip)?;
                let rest = &self.input[p..];
                let n = s.chars().count();
                let matched = if *insensitive {
                    let lower = s.to_ascii_lowercase();
                    rest.len() >= lower.len()
                        && rest.is_char_boundary(lower.len())
                        && rest.as_bytes()[..lower.len()].iter().zip(lower.as_bytes()).all(|(a, b)| a.to_ascii_lowercase() == *b)
                } else {
                    rest.starts_with(s.as_str())
                };
                if let Some(c) = self.next_char(p) {
                    if c.len_utf8() > 1 {
                        self.stats.multibyte_at_terminal += 1;
                    }
                }
                if matched {
                    if *insensitive && rest[..s.len()] != **s {
                        self.stats.insensitive_hits += 1;
                    }
                    if s.chars().any(|c| c.len_utf8() > 1) {
                        self.stats.multibyte_consumed += 1;
                    }
                    if !s.is_empty() {
                        self.prog += 1;
                    }
                    Ok((p + s.len(), vec![]))
                } else {
                    let shown = if *insensitive { s.to_ascii_lowercase() } else { s.clone() };
                    let spec = if n == 1 {
                        format!("ExpectedCharacter {{ c: {:?} }}", shown.chars().next().unwrap())
                    } else {
                        format!("ExpectedString {{ s: {:?} }}", shown)
                    };
                    self.note(p, spec);
                    Err(())
                }
            }
            Expr::Range(a, b) => {
                let p = self.skip(pos, skip)?;
                match self.next_char(p) {
                    Some(c) if *a <= c && c <= *b => {
                        if c == *a || c == *b {
                            self.stats.range_endpoint_hits += 1;
                        }
                        if c.len_utf8() > 1 {
                            self.stats.multibyte_consumed += 1;
                            self.stats.multibyte_at_terminal += 1;
                        }
                        self.prog += 1;
                        Ok((p + c.len_utf8(), vec![]))
                    }
                    other => {
                        if let Some(c) = other {
                            if c.len_utf8() > 1 {
                                self.stats.multibyte_at_terminal += 1;
                            }
                        }
                        self.note(p, format!("ExpectedCharacterRange {{ from: {:?}, to: {:?} }}", a, b));
                        Err(())
                    }
                }
            }
            Expr::Eoi => {
                let p = self.skip(pos, skip)?;
                if p == self.input.len() {
                    Ok((p, vec![]))
                } else {
                    self.note(p, "ExpectedEoi".into());
                    Err(())
                }
            }
            Expr::Ref { field, typ, .. } => {
                let p = self.skip(pos, skip)?;
                let (q, v) = self.call(typ, p)?;
                if q > p {
                    self.prog += 1;
                }
                if *field != FieldName::None {
                    self.binds += 1;
                }
                let b = match field {
                    FieldName::None => vec![],
                    FieldName::Named(n) => vec![(n.clone(), typ.clone(), v)],
                    FieldName::Override => vec![(OVERRIDE.to_string(), typ.clone(), v)],
                };
                Ok((q, b))
            }
            Expr::Seq(parts) => {
                let mut p = pos;
                let mut bs = vec![];
                for part in parts {
                    let (q, b) = self.eval(part, p, skip)?;
                    p = q;
                    bs.extend(b);
                }
                Ok((p, bs))
            }
            Expr::Choice(arms) => {
                for arm in arms {
                    let mark = self.trace.len();
                    let (prog0, binds0) = (self.prog, self.binds);
                    self.nest += 1;
                    let r = self.eval(arm, pos, skip);
                    self.nest -= 1;
                    match r {
                        Ok(x) => return Ok(x),
                        Err(()) => {
                            self.mark_abandoned(mark);
                            if self.in_lookahead == 0 {
                                if self.prog > prog0 {
                                    self.stats.backtracks_after_progress += 1;
                                }
                                if self.binds > binds0 {
                                    self.stats.abandoned_bindings += 1;
                                }
                            }
                            if self.diverged {
                                return Err(());
                            }
                        }
                    }
                }
                Err(())
            }
            Expr::Group(b) => self.eval(b, pos, skip),
            Expr::Opt(b) => {
                let mark = self.trace.len();
                let (prog0, binds0) = (self.prog, self.binds);
                self.nest += 1;
                let r = self.eval(b, pos, skip);
                self.nest -= 1;
                match r {
                    Ok(x) => Ok(x),
                    Err(()) => {
                        self.mark_abandoned(mark);
                        if self.in_lookahead == 0 {
                            if self.prog > prog0 {
                                self.stats.backtracks_after_progress += 1;
                            }
                            if self.binds > binds0 {
                                self.stats.abandoned_bindings += 1;
                            }
                        }
                        if self.diverged {
                            return Err(());
                        }
                        Ok((pos, vec![]))
                    }
                }
            }
            Expr::Star(b) | Expr::Plus(b) => {
                let mut p = pos;
                let mut bs = vec![];
                let mut iters = 0usize;
                loop {
                    let mark = self.trace.len();
                    let (prog0, binds0) = (self.prog, self.binds);
                    self.nest += 1;
                    let r = self.eval(b, p, skip);
                    self.nest -= 1;
                    if r.is_err() && self.in_lookahead == 0 {
                        if self.prog > prog0 {
                            self.stats.closure_partial_stop += 1;
                        }
                        if self.binds > binds0 {
                            self.stats.abandoned_bindings += 1;
                        }
                    }
                    match r {
                        Ok((q, b2)) => {
                            if q == p {
                                // nullable closure body: would not terminate; generator excludes it
                                self.diverged = true;
                                return Err(());
                            }
                            p = q;
                            bs.extend(b2);
                            iters += 1;
                            self.stats.closure_iterations += 1;
                        }
                        Err(()) => {
                            self.mark_abandoned(mark);
                            if self.diverged {
                                return Err(());
                            }
                            break;
                        }
                    }
                }
                if matches!(e, Expr::Plus(_)) && iters == 0 {
                    return Err(());
                }
                Ok((p, bs))
            }
            Expr::And(b) => {
                self.stats.lookaheads += 1;
                let saved = self.snapshot();
                let mark = self.trace.len();
                self.in_lookahead += 1;
                let r = self.eval(b, pos, skip);
                self.in_lookahead -= 1;
                self.mark_abandoned(mark);
                match r {
                    Ok(_) => {
                        self.restore(saved);
                        Ok((pos, vec![]))
                    }
                    Err(()) => Err(()),
                }
            }
            Expr::Not(b) => {
                self.stats.lookaheads += 1;
                let saved = self.snapshot();
                let mark = self.trace.len();
                self.in_lookahead += 1;
                let r = self.eval(b, pos, skip);
                self.in_lookahead -= 1;
                self.mark_abandoned(mark);
                if self.diverged {
                    return Err(());
                }
                self.restore(saved);
                match r {
                    Ok(_) => {
                        self.note(pos, "NegativeLookaheadFailed".into());
                        Err(())
                    }
                    Err(()) => Ok((pos, vec![])),
                }
            }
            Expr::Include(r) => {
                let body = match self.g.normal(r) {
                    Some(n) => &n.body,
                    None => return Err(()),
                };
                self.stats.includes_entered += 1;
                if self.nest > 0 {
                    self.stats.includes_nested += 1;
                }
                self.eval(body, pos, skip)
            }
        }
    }

    /// invoke a rule (or the builtin `char`) at position p (no skipping here)
    fn call(&mut self, name: &str, p: usize) -> Result<(usize, Val), ()> {
        if !self.tick() {
            return Err(());
        }
        if name == "char" && self.g.find("char").is_none() {
            return match self.next_char(p) {
                Some(c) => {
                    if c.len_utf8() > 1 {
                        self.stats.multibyte_consumed += 1;
                        self.stats.multibyte_at_terminal += 1;
                    }
                    Ok((p + c.len_utf8(), Val::Char(c)))
                }
                None => {
                    self.note(p, "ExpectedAnyCharacter".into());
                    Err(())
                }
            };
        }
        if name == "Whitespace" && !self.custom_ws {
            // explicit reference to the built-in whitespace rule
            let b = self.input.as_bytes();
            let mut q = p;
            while q < b.len() && matches!(b[q], 0x20 | 0x09 | 0x0A | 0x0C | 0x0D) {
                q += 1;
            }
            return Ok((q, Val::Unit("()".into())));
        }
        let g = self.g;
        match g.find(name) {
            None => {
                self.diverged = true;
                Err(())
            }
            Some(RuleDef::CharClass(c)) => self.call_class(c, p),
            Some(RuleDef::Extern(e)) => {
                let path = e.function.join("::");
                let (short, _ctx) = hooks::short_name(&path);
                self.stats.externs_called += 1;
                self.hooks.push(HookCall { name: short.to_string(), arg: self.input[p..].to_string(), ty: String::new() });
                match hooks::decide_extern(short, &self.input[p..], self.cfg.salt) {
                    Ok((dbg, n)) => Ok((p + n, Val::Raw(dbg))),
                    Err(msg) => {
                        self.stats.hooks_failed += 1;
                        self.note(p, format!("ExternRuleFailed {{ error_string: {:?} }}", msg));
                        Err(())
                    }
                }
            }
            Some(RuleDef::Normal(n)) => {
                self.stats.rule_calls += 1;
                self.depth += 1;
                if self.depth > MAX_DEPTH {
                    self.diverged = true;
                    self.depth -= 1;
                    return Err(());
                }
                self.rule_depth += 1;
                if self.rule_depth > self.stats.max_rule_depth {
                    self.stats.max_rule_depth = self.rule_depth;
                }
                if self.cfg.record_trace {
                    self.trace.push(Ev::Start { rule: n.name.clone(), pos: p, abandoned: false });
                }
                let r = if n.leftrec() {
                    self.grow(n, p)
                } else if n.memoize() && self.cfg.memo_aware {
                    let key = (n.name.clone(), p);
                    if let Some(r) = self.table.get(&key) {
                        r.clone()
                    } else {
                        let r = self.body_once(n, p);
                        self.table.insert(key, r.clone());
                        r
                    }
                } else {
                    self.body_once(n, p)
                };
                if self.cfg.record_trace {
                    self.trace.push(Ev::Result { ok: r.is_ok(), abandoned: false });
                }
                self.depth -= 1;
                self.rule_depth -= 1;
                r
            }
        }
    }

    fn call_class(&mut self, c: &CharRule, p: usize) -> Result<(usize, Val), ()> {
        let spec = format!("ExpectedCharacterClass {{ name: {:?} }}", c.name);
        let ch = match self.next_char(p) {
            Some(ch) => ch,
            None => {
                // at end of input every alternative is (or may be) attempted and fails there
                self.note_class_parts_at_eoi(c, p, 0);
                self.note(p, spec);
                return Err(());
            }
        };
        if ch.len_utf8() > 1 {
            self.stats.multibyte_at_terminal += 1;
        }
        let cchecks = c.checks();
        for (ci, chk) in cchecks.iter().enumerate() {
            let (short, _) = hooks::short_name(chk);
            self.stats.checks_called += 1;
            self.hooks.push(HookCall { name: short.to_string(), arg: ch.to_string(), ty: String::new() });
            if !hooks::decide_char_check(short, ch) {
                for later in &cchecks[ci + 1..] {
                    let (s2, _) = hooks::short_name(later);
                    self.hooks_optional.push(HookCall { name: s2.to_string(), arg: ch.to_string(), ty: String::new() });
                }
                self.stats.hooks_failed += 1;
                self.note(p, spec);
                return Err(());
            }
        }
        for part in &c.parts {
            let ok = match part {
                CharPart::Char(x) => {
                    if ch == *x {
                        true
                    } else {
                        self.note(p, format!("ExpectedCharacter {{ c: {:?} }}", x));
                        false
                    }
                }
                CharPart::Range(a, b) => {
                    if *a <= ch && ch <= *b {
                        if ch == *a || ch == *b {
                            self.stats.range_endpoint_hits += 1;
                        }
                        true
                    } else {
                        self.note(p, format!("ExpectedCharacterRange {{ from: {:?}, to: {:?} }}", a, b));
                        false
                    }
                }
                CharPart::Class(n) => {
                    if n == "char" && self.g.find("char").is_none() {
                        true
                    } else {
                        match self.g.find(n) {
                            Some(RuleDef::CharClass(inner)) => self.call_class(inner, p).is_ok(),
                            _ => {
                                self.diverged = true;
                                false
                            }
                        }
                    }
                }
            };
            if ok {
                if ch.len_utf8() > 1 {
                    self.stats.multibyte_consumed += 1;
                }
                return Ok((p + ch.len_utf8(), Val::Char(ch)));
            }
        }
        self.note(p, spec);
        Err(())
    }

    fn note_class_parts_at_eoi(&mut self, c: &CharRule, p: usize, depth: usize) {
        if depth > 16 {
            return;
        }
        for part in &c.parts {
            match part {
                CharPart::Char(x) => self.note(p, format!("ExpectedCharacter {{ c: {:?} }}", x)),
                CharPart::Range(a, b) => self.note(p, format!("ExpectedCharacterRange {{ from: {:?}, to: {:?} }}", a, b)),
                CharPart::Class(n) => {
                    if n == "char" && self.g.find("char").is_none() {
                        self.note(p, "ExpectedAnyCharacter".into());
                    } else if let Some(RuleDef::CharClass(inner)) = self.g.find(n) {
                        let inner = inner.clone();
                        self.note_class_parts_at_eoi(&inner, p, depth + 1);
                        self.note(p, format!("ExpectedCharacterClass {{ name: {:?} }}", inner.name));
                    }
                }
            }
        }
    }

    fn body_once(&mut self, n: &NormalRule, p: usize) -> Result<(usize, Val), ()> {
        {
            let e = self.evals.entry((n.name.clone(), p)).or_insert((0, false));
            e.0 += 1;
            if e.0 == 2 && n.memoize() {
                self.stats.memo_revisits += 1;
                if e.1 {
                    self.stats.memo_revisit_first_failed += 1;
                }
            }
        }
        let saved_nest = self.nest;
        self.nest = 0;
        let r = self.eval(&n.body, p, !n.no_skip_ws());
        self.nest = saved_nest;
        let (q, bs) = match r {
            Ok(x) => x,
            Err(()) => {
                let e = self.evals.get_mut(&(n.name.clone(), p)).unwrap();
                if e.0 == 1 {
                    e.1 = true;
                }
                return Err(());
            }
        };
        let v = match self.assemble(n, bs, p, q) {
            Some(v) => v,
            None => {
                self.diverged = true;
                return Err(());
            }
        };
        let checks = n.checks();
        if !checks.is_empty() {
            let rendered = v.rendered();
            for (ci, chk) in checks.iter().enumerate() {
                let (short, _) = hooks::short_name(chk);
                self.stats.checks_called += 1;
                self.hooks.push(HookCall { name: short.to_string(), arg: rendered.clone(), ty: n.name.clone() });
                if !hooks::decide_check(short, &rendered, self.cfg.salt) {
                    for later in &checks[ci + 1..] {
                        let (s2, _) = hooks::short_name(later);
                        self.hooks_optional.push(HookCall { name: s2.to_string(), arg: rendered.clone(), ty: n.name.clone() });
                    }
                    self.stats.hooks_failed += 1;
                    self.note(q, format!("CheckFunctionFailed {{ function_name: {:?} }}", chk));
                    let e = self.evals.get_mut(&(n.name.clone(), p)).unwrap();
                    if e.0 == 1 {
                        e.1 = true;
                    }
                    return Err(());
                }
            }
        }
        Ok((q, v))
    }

    fn grow(&mut self, n: &NormalRule, p: usize) -> Result<(usize, Val), ()> {
        let key = (n.name.clone(), p);
        if let Some(r) = self.table.get(&key) {
            return r.clone();
        }
        self.stats.growth_entered += 1;
        self.table.insert(key.clone(), Err(()));
        loop {
            let r = self.body_once(n, p);
            if self.diverged {
                return Err(());
            }
            let cur = self.table.get(&key).unwrap().clone();
            match (r, cur) {
                (Ok((q, v)), Err(())) => {
                    self.table.insert(key.clone(), Ok((q, v)));
                    self.stats.growth_steps += 1;
                }
                (Ok((q, v)), Ok((best, _))) => {
                    if q > best {
                        self.table.insert(key.clone(), Ok((q, v)));
                        self.stats.growth_steps += 1;
                    } else {
                        break;
                    }
                }
                (Err(()), _) => break,
            }
            if !self.tick() {
                return Err(());
            }
        }
        self.table.get(&key).unwrap().clone()
    }

    fn assemble(&mut self, n: &NormalRule, bs: Vec<Binding>, start: usize, end: usize) -> Option<Val> {
        self.stats.abandoned_bindings += 0;
        let kind = self.shapes.kind(&n.name)?;
        Some(match kind {
            Kind::Str => Val::Str(self.input[start..end].to_string()),
            Kind::StrPos => Val::Struct {
                name: n.name.clone(),
                fields: vec![("string".into(), Val::Str(self.input[start..end].to_string()))],
                pos: Some((start, end)),
            },
            Kind::Alias { arity, .. } => {
                let mut vals: Vec<Val> = bs.into_iter().filter(|b| b.0 == OVERRIDE).map(|b| b.2).collect();
                match arity {
                    Arity::One => {
                        if vals.len() != 1 {
                            return None;
                        }
                        vals.pop().unwrap()
                    }
                    Arity::Optional => {
                        if vals.len() > 1 {
                            return None;
                        }
                        Val::Opt(vals.pop().map(Box::new))
                    }
                    Arity::Multiple => Val::List(vals),
                }
            }
            Kind::Enum { .. } => {
                let mut vals: Vec<(String, Val)> =
                    bs.into_iter().filter(|b| b.0 == OVERRIDE).map(|b| (b.1, b.2)).collect();
                if vals.len() != 1 {
                    return None;
                }
                let (t, v) = vals.pop().unwrap();
                self.stats.enum_fields_set += 1;
                Val::Variant(t, Box::new(v))
            }
            Kind::Struct { fields, position } => {
                if fields.is_empty() && !*position {
                    return Some(Val::Unit(n.name.clone()));
                }
                let mut out = vec![];
                for f in fields {
                    let multi = f.types.len() > 1;
                    let mut vals: Vec<Val> = bs
                        .iter()
                        .filter(|b| b.0 == f.name)
                        .map(|b| if multi { Val::Variant(b.1.clone(), Box::new(b.2.clone())) } else { b.2.clone() })
                        .collect();
                    if multi && !vals.is_empty() {
                        self.stats.enum_fields_set += 1;
                    }
                    let v = match f.arity {
                        Arity::One => {
                            if vals.len() != 1 {
                                return None;
                            }
                            vals.pop().unwrap()
                        }
                        Arity::Optional => {
                            if vals.len() > 1 {
                                return None;
                            }
                            Val::Opt(vals.pop().map(Box::new))
                        }
                        Arity::Multiple => {
                            if vals.len() >= 2 {
                                self.stats.multi_part_fields += 1;
                            }
                            Val::List(vals)
                        }
                    };
                    out.push((f.name.clone(), v));
                }
                Val::Struct {
                    name: n.name.clone(),
                    fields: out,
                    pos: if *position { Some((start, end)) } else { None },
                }
            }
            Kind::Char | Kind::Extern { .. } => return None,
        })
    }
}

pub fn run(g: &Grammar, shapes: &Shapes, rule: &str, input: &str, cfg: Cfg) -> Outcome {
    Interp::new(g, shapes, input, cfg).run(rule)
}
