//! User functions referenced by generated grammars (`@check(verif_core::hooks::...)`,
//! `@extern(verif_core::hooks::...)`) and called by the reference interpreter with the same
//! arguments. All are pure functions of their arguments (+ the salt in the user context) and log
//! every invocation to a thread-local log that the harness drains.
use std::cell::RefCell;
use std::fmt::Debug;

#[derive(Debug, Clone, PartialEq, Eq, Hash, PartialOrd, Ord, serde::Serialize, serde::Deserialize)]
pub struct HookCall {
    pub name: String,
    /// check: Debug text of the value; char check: the char; extern: the remaining input
    pub arg: String,
    /// `std::any::type_name` of the argument (checks only), "" otherwise
    pub ty: String,
}

thread_local! {
    static LOG: RefCell<Vec<HookCall>> = RefCell::new(Vec::new());
    static LOG_ON: RefCell<bool> = RefCell::new(true);
}

pub fn drain_log() -> Vec<HookCall> {
    LOG.with(|l| std::mem::take(&mut *l.borrow_mut()))
}
pub fn clear_log() {
    LOG.with(|l| l.borrow_mut().clear())
}
thread_local! {
    static NESTED: std::cell::Cell<Option<fn()>> = std::cell::Cell::new(None);
}
/// While set, every user function runs `f` once before it answers: the harness uses it to run ANOTHER, complete parse
/// in the middle of the parse in progress (a user function that validates its text with a second parser). A pure
/// function of nothing - the answer of the hook is unchanged.
pub fn set_nested(f: Option<fn()>) {
    NESTED.with(|n| n.set(f));
}

fn log(name: &str, arg: String, ty: &str) {
    LOG.with(|l| {
        let mut l = l.borrow_mut();
        if l.len() < 100_000 {
            l.push(HookCall { name: name.to_string(), arg, ty: ty.to_string() })
        }
    });
    if let Some(f) = NESTED.with(|n| n.take()) {
        // not re-entrant: the nested parse runs with the switch off; its own hook calls are removed from the log
        let keep = LOG.with(|l| l.borrow().len());
        f();
        LOG.with(|l| l.borrow_mut().truncate(keep));
        NESTED.with(|n| n.set(Some(f)));
    }
}

/// user context type for the "with user context" configuration
#[derive(Debug, Default)]
pub struct Ctx {
    pub salt: u64,
    pub calls: Vec<HookCall>,
}

pub const P: &str = "verif_core::hooks::";

// ------------------------------------------------------------------------------------------
// decisions (pure)
// ------------------------------------------------------------------------------------------
pub const CHECKS: &[&str] = &["chk_true", "chk_false", "chk_even", "chk_short", "chk_hash", "chk_no_b"];
pub const CHAR_CHECKS: &[&str] = &["cc_true", "cc_false", "cc_alpha", "cc_not_b", "cc_lower", "cc_ascii"];
pub const EXTERNS: &[&str] = &[
    "ext_word", "ext_one", "ext_num", "ext_probe0", "ext_probe1", "ext_probe2", "ext_probe3", "ext_opt_a",
    "ext_fail", "ext_wide", "ext_upto", "ext_ws",
];

/// with this salt (reachable only through the user context) every value-dependent hook panics: an aborted parse in the
/// middle of a history
pub const PANIC_SALT: u64 = u64::MAX;

thread_local! {
    static PANIC_MODE: std::cell::Cell<bool> = std::cell::Cell::new(false);
}
/// while set, every value-dependent check function called on this thread panics (hooks without a user context have no
/// other channel)
pub fn set_panic_mode(on: bool) {
    PANIC_MODE.with(|p| p.set(on));
}

pub fn decide_check(name: &str, debug: &str, salt: u64) -> bool {
    if (salt == PANIC_SALT || PANIC_MODE.with(|p| p.get())) && name != "chk_true" {
        panic!("VERIF_HOOK_PANIC");
    }
    match name {
        "chk_true" => true,
        "chk_false" => false,
        "chk_even" => (debug.len() as u64 + salt) % 2 == 0,
        "chk_short" => debug.len() <= 24 + (salt % 8) as usize,
        "chk_hash" => (crate::util::fnv64(debug.as_bytes()) ^ salt) % 3 != 0,
        "chk_no_b" => !debug.contains('b'),
        _ => panic!("unknown check {name}"),
    }
}

pub fn decide_char_check(name: &str, c: char) -> bool {
    match name {
        "cc_true" => true,
        "cc_false" => false,
        "cc_alpha" => c.is_alphabetic(),
        "cc_not_b" => c != 'b',
        "cc_lower" => !c.is_uppercase(),
        "cc_ascii" => c.is_ascii(),
        _ => panic!("unknown char check {name}"),
    }
}

#[derive(Debug, Clone, PartialEq, Eq)]
pub struct Tok {
    pub n: usize,
    pub s: String,
}

/// result of an extern as the oracle sees it: Debug text of the value after `.into()`
pub fn decide_extern(name: &str, s: &str, salt: u64) -> Result<(String, usize), &'static str> {
    let _ = salt;
    match name {
        "ext_word" => {
            let n = s.bytes().take_while(|b| b.is_ascii_lowercase()).count();
            if n == 0 {
                Err("expected word")
            } else {
                Ok((format!("{:?}", &s[..n]), n))
            }
        }
        "ext_one" => match s.chars().next() {
            Some(c) => Ok((format!("{:?}", c.to_string()), c.len_utf8())),
            None => Err("expected one char"),
        },
        "ext_num" => {
            let n = s.bytes().take_while(|b| b.is_ascii_digit()).count();
            if n == 0 {
                Err("expected number")
            } else {
                Ok((format!("{:?}", Tok { n, s: s[..n].to_string() }), n))
            }
        }
        n if n.starts_with("ext_probe") => Ok((format!("{:?}", ""), 0)),
        "ext_opt_a" => {
            let n = if s.starts_with('a') { 1 } else { 0 };
            Ok((format!("{:?}", &s[..n]), n))
        }
        "ext_fail" => Err("always fails"),
        // a total whitespace skipper for `@extern(..) Whitespace;` (space, tab, underscore)
        "ext_ws" => {
            let n = s.bytes().take_while(|b| matches!(b, b' ' | b'\t' | b'_')).count();
            Ok((format!("{:?}", &s[..n]), n))
        }
        "ext_wide" => match s.chars().next() {
            Some(c) if c.len_utf8() > 1 => Ok((format!("{:?}", c.to_string()), c.len_utf8())),
            _ => Err("expected a multi-byte character"),
        },
        "ext_upto" => match s.find(';') {
            Some(i) => Ok((format!("{:?}", &s[..i]), i + 1)),
            None => Err("expected ';'"),
        },
        _ => panic!("unknown extern {name}"),
    }
}

/// can the extern succeed without consuming? (needed for nullability analysis)
pub fn extern_can_be_empty(path: &str) -> bool {
    let name = path.rsplit("::").next().unwrap_or(path);
    let name = name.strip_prefix("c_").unwrap_or(name);
    name.starts_with("ext_probe") || name == "ext_opt_a" || name == "ext_ws"
}

/// the declared return type an extern rule must carry (None => String by default / `&str`.into())
pub fn extern_ret(name: &str) -> Option<&'static str> {
    match name {
        "ext_num" => Some("verif_core::hooks::Tok"),
        _ => None,
    }
}

pub fn short_name(path: &str) -> (&str, bool) {
    let name = path.rsplit("::").next().unwrap_or(path);
    match name.strip_prefix("c_") {
        Some(n) => (n, true),
        None => (name, false),
    }
}

// ------------------------------------------------------------------------------------------
// the functions the generated code calls
// ------------------------------------------------------------------------------------------
macro_rules! checks {
    ($($name:ident / $cname:ident),*) => {$(
        pub fn $name<T: Debug>(v: &T) -> bool {
            let d = format!("{:?}", v);
            let r = decide_check(stringify!($name), &d, 0);
            log(stringify!($name), d, std::any::type_name::<T>());
            r
        }
        pub fn $cname<T: Debug>(v: &T, ctx: &mut Ctx) -> bool {
            let d = format!("{:?}", v);
            let r = decide_check(stringify!($name), &d, ctx.salt);
            ctx.calls.push(HookCall { name: stringify!($name).into(), arg: d.clone(), ty: std::any::type_name::<T>().into() });
            log(stringify!($name), d, std::any::type_name::<T>());
            r
        }
    )*};
}
checks!(chk_true / c_chk_true, chk_false / c_chk_false, chk_even / c_chk_even, chk_short / c_chk_short,
        chk_hash / c_chk_hash, chk_no_b / c_chk_no_b);

/// checks without a Debug bound (for derive sets that lack Debug; compile-only configurations)
pub fn chk_any<T>(_v: &T) -> bool {
    log("chk_any", String::new(), std::any::type_name::<T>());
    true
}
pub fn c_chk_any<T>(_v: &T, ctx: &mut Ctx) -> bool {
    ctx.calls.push(HookCall { name: "chk_any".into(), arg: String::new(), ty: String::new() });
    true
}

macro_rules! char_checks {
    ($($name:ident),*) => {$(
        pub fn $name(c: char) -> bool {
            log(stringify!($name), c.to_string(), "");
            decide_char_check(stringify!($name), c)
        }
    )*};
}
char_checks!(cc_true, cc_false, cc_alpha, cc_not_b, cc_lower, cc_ascii);

// externs returning &str (converted by `.into()` to String)
macro_rules! str_externs {
    ($($name:ident / $cname:ident),*) => {$(
        pub fn $name(s: &str) -> Result<(&str, usize), &'static str> {
            log(stringify!($name), s.to_string(), "");
            let (_, n) = decide_extern(stringify!($name), s, 0)?;
            Ok((value_slice(stringify!($name), s, n), n))
        }
        pub fn $cname<'a>(s: &'a str, ctx: &mut Ctx) -> Result<(&'a str, usize), &'static str> {
            log(stringify!($name), s.to_string(), "");
            ctx.calls.push(HookCall { name: stringify!($name).into(), arg: s.to_string(), ty: String::new() });
            let (_, n) = decide_extern(stringify!($name), s, ctx.salt)?;
            Ok((value_slice(stringify!($name), s, n), n))
        }
    )*};
}
fn value_slice<'a>(name: &str, s: &'a str, n: usize) -> &'a str {
    if name == "ext_upto" {
        &s[..n - 1]
    } else {
        &s[..n]
    }
}
str_externs!(ext_word / c_ext_word, ext_probe0 / c_ext_probe0, ext_probe1 / c_ext_probe1, ext_probe2 / c_ext_probe2,
             ext_probe3 / c_ext_probe3, ext_probe4 / c_ext_probe4, ext_probe5 / c_ext_probe5, ext_probe6 / c_ext_probe6, ext_probe7 / c_ext_probe7, ext_opt_a / c_ext_opt_a, ext_fail / c_ext_fail, ext_upto / c_ext_upto, ext_ws / c_ext_ws);

// externs returning String directly
pub fn ext_one(s: &str) -> Result<(String, usize), &'static str> {
    log("ext_one", s.to_string(), "");
    let (_, n) = decide_extern("ext_one", s, 0)?;
    Ok((s[..n].to_string(), n))
}
pub fn c_ext_one(s: &str, ctx: &mut Ctx) -> Result<(String, usize), &'static str> {
    ctx.calls.push(HookCall { name: "ext_one".into(), arg: s.to_string(), ty: String::new() });
    ext_one(s)
}
pub fn ext_wide(s: &str) -> Result<(String, usize), &'static str> {
    log("ext_wide", s.to_string(), "");
    let (_, n) = decide_extern("ext_wide", s, 0)?;
    Ok((s[..n].to_string(), n))
}
pub fn c_ext_wide(s: &str, ctx: &mut Ctx) -> Result<(String, usize), &'static str> {
    ctx.calls.push(HookCall { name: "ext_wide".into(), arg: s.to_string(), ty: String::new() });
    ext_wide(s)
}
// typed extern
pub fn ext_num(s: &str) -> Result<(Tok, usize), &'static str> {
    log("ext_num", s.to_string(), "");
    let (_, n) = decide_extern("ext_num", s, 0)?;
    Ok((Tok { n, s: s[..n].to_string() }, n))
}
pub fn c_ext_num(s: &str, ctx: &mut Ctx) -> Result<(Tok, usize), &'static str> {
    ctx.calls.push(HookCall { name: "ext_num".into(), arg: s.to_string(), ty: String::new() });
    ext_num(s)
}
