//! Generator of well-formed grammar models, driven by a byte choice source (DESIGN.md §2.1, App. C).
use crate::hooks;
use crate::model::*;
use crate::shapes::{self, fields_of, Kind};
use crate::util::Src;
use std::collections::BTreeSet;

#[derive(Debug, Clone)]
pub struct Profile {
    pub name: &'static str,
    pub min_rules: usize,
    pub max_rules: usize,
    pub max_depth: usize,
    // expression weights
    pub w_lit: u32,
    pub w_range: u32,
    pub w_eoi: u32,
    pub w_anon: u32,
    pub w_field: u32,
    pub w_opt: u32,
    pub w_star: u32,
    pub w_plus: u32,
    pub w_not: u32,
    pub w_and: u32,
    pub w_include: u32,
    pub w_choice: u32,
    pub w_group: u32,
    pub w_seq: u32,
    // literal flavour (out of 256)
    pub p_insensitive: u32,
    pub p_unicode: u32,
    pub p_escape_chars: u32,
    pub p_empty_lit: u32,
    // rule kinds (weights)
    pub k_struct: u32,
    pub k_unit: u32,
    pub k_string: u32,
    pub k_override: u32,
    pub k_enum: u32,
    pub k_charclass: u32,
    pub k_extern: u32,
    // directives (out of 256)
    pub p_no_skip_ws: u32,
    pub p_position: u32,
    pub p_memoize: u32,
    pub p_check: u32,
    pub p_export: u32,
    // fields
    pub p_boxed: u32,
    pub p_reuse_field: u32,
    pub p_char_field: u32,
    pub keyword_names: bool,
    pub p_custom_ws: u32,
    pub p_nullable_rule: u32,
    pub p_override_in_brackets: u32,
    pub p_shared_prefix: u32,
    pub p_twin: u32,
    pub p_sibling: u32,
    /// chance of the "nullable tail" gadget: `[nt:NulS]` (a field whose rule can match nothing) at the end of a struct rule
    pub p_nullable_tail: u32,
    pub w_record: u32,
    pub user_ctx: bool,
}

impl Profile {
    pub fn base(name: &'static str) -> Profile {
        Profile {
            name,
            min_rules: 2,
            max_rules: 7,
            max_depth: 4,
            w_lit: 30,
            w_range: 8,
            w_eoi: 2,
            w_anon: 10,
            w_field: 14,
            w_opt: 8,
            w_star: 7,
            w_plus: 3,
            w_not: 3,
            w_and: 2,
            w_include: 2,
            w_choice: 10,
            w_group: 3,
            w_seq: 12,
            p_insensitive: 24,
            p_unicode: 40,
            p_escape_chars: 10,
            p_empty_lit: 4,
            k_struct: 10,
            k_unit: 3,
            k_string: 2,
            k_override: 2,
            k_enum: 2,
            k_charclass: 2,
            k_extern: 0,
            p_no_skip_ws: 70,
            p_position: 20,
            p_memoize: 0,
            p_check: 0,
            p_export: 128,
            p_boxed: 16,
            p_reuse_field: 70,
            p_char_field: 30,
            keyword_names: false,
            p_custom_ws: 0,
            p_nullable_rule: 50,
            p_override_in_brackets: 30,
            p_shared_prefix: 12,
            p_twin: 0,
            p_sibling: 0,
            p_nullable_tail: 0,
            w_record: 3,
            user_ctx: false,
        }
    }

    pub fn by_name(name: &str) -> Option<Profile> {
        let mut p = Profile::base("core");
        Some(match name {
            "core" => {
                p.w_field = 4;
                p.k_unit = 10;
                p.k_struct = 4;
                p.w_not = 5;
                p.w_and = 4;
                p.w_range = 12;
                p.k_charclass = 4;
                p.p_escape_chars = 24;
                p
            }
            "fields" => {
                p.name = "fields";
                p.w_record = 16;
                p.p_sibling = 70;
                p.p_nullable_tail = 70;
                p.w_field = 30;
                p.w_lit = 20;
                p.k_struct = 12;
                p.k_override = 4;
                p.k_enum = 4;
                p.k_string = 3;
                p.w_include = 5;
                p.p_reuse_field = 110;
                p.p_position = 30;
                p
            }
            "types" => {
                p.name = "types";
                p.w_record = 12;
                p.p_sibling = 50;
                p.p_nullable_tail = 40;
                p.w_field = 34;
                p.w_lit = 14;
                p.k_struct = 12;
                p.k_override = 4;
                p.k_enum = 5;
                p.k_string = 3;
                p.k_unit = 2;
                p.k_extern = 1;
                p.w_include = 5;
                p.p_reuse_field = 120;
                p.p_boxed = 40;
                p.keyword_names = true;
                p.p_position = 40;
                p.p_check = 10;
                p.p_memoize = 20;
                p.max_rules = 8;
                p
            }
            "unicode" => {
                p.name = "unicode";
                p.p_unicode = 170;
                p.p_escape_chars = 20;
                p.w_range = 16;
                p.k_charclass = 5;
                p.k_string = 4;
                p.k_extern = 2;
                p.p_position = 60;
                p.p_insensitive = 40;
                p
            }
            "memo" => {
                p.name = "memo";
                p.w_record = 5;
                p.p_check = 70;
                p.p_memoize = 110;
                p.p_shared_prefix = 130;
                p.p_nullable_rule = 90;
                p.w_opt = 10;
                p.w_choice = 16;
                p.w_anon = 16;
                p.w_field = 16;
                p.k_extern = 1;
                p.w_not = 5;
                p.w_and = 5;
                p
            }
            "ws" => {
                p.name = "ws";
                p.p_twin = 70;
                p.p_no_skip_ws = 110;
                p.p_custom_ws = 90;
                p.w_include = 8;
                p.k_string = 5;
                p.k_extern = 2;
                p.w_eoi = 5;
                p.p_char_field = 60;
                p.w_not = 5;
                p.w_and = 4;
                p.p_position = 40;
                p
            }
            "memows" => {
                p.name = "memows";
                p.p_twin = 230;
                p.p_no_skip_ws = 110;
                p.p_custom_ws = 30;
                p.p_memoize = 100;
                p.p_position = 70;
                p.p_shared_prefix = 80;
                p.w_anon = 14;
                p.w_field = 18;
                p.k_string = 4;
                p.w_include = 4;
                p
            }
            "pos" => {
                p.name = "pos";
                p.w_record = 8;
                p.p_sibling = 30;
                p.p_shared_prefix = 50;
                p.p_memoize = 70;
                p.p_position = 150;
                p.w_field = 26;
                p.k_string = 5;
                p.k_enum = 5;
                p.p_unicode = 90;
                p.w_include = 4;
                p
            }
            "hooks" => {
                p.name = "hooks";
                p.w_record = 6;
                p.p_check = 110;
                p.k_extern = 5;
                p.k_charclass = 4;
                p.k_string = 3;
                p.k_enum = 3;
                p.k_override = 3;
                p.w_field = 20;
                p.w_anon = 14;
                p.p_position = 30;
                p.p_memoize = 12;
                p
            }
            "include" => {
                p.name = "include";
                p.w_record = 8;
                p.p_sibling = 130;
                p.w_include = 26;
                p.w_field = 22;
                p.p_check = 24;
                p.p_memoize = 24;
                p.p_position = 40;
                p.k_string = 3;
                p.p_no_skip_ws = 100;
                p.min_rules = 3;
                p
            }
            "mixed" => {
                p.name = "mixed";
                p.w_record = 7;
                p.p_sibling = 40;
                p.p_twin = 40;
                p.p_memoize = 70;
                p.p_shared_prefix = 70;
                p.p_check = 40;
                p.k_extern = 2;
                p.k_string = 3;
                p.k_enum = 3;
                p.k_override = 3;
                p.k_charclass = 3;
                p.w_field = 18;
                p.w_include = 4;
                p.p_position = 40;
                p
            }
            _ => return None,
        })
    }
}

pub const RULE_NAMES: &[&str] = &[
    "Alpha", "Beta", "Gamma", "Delta", "Eps", "Zeta", "Eta", "Theta", "Iota", "Kappa", "Lambda", "Mu", "Nu", "Xi",
    "Omi", "Pi", "Rho", "Sigma", "Tau", "Upsilon", "Phi", "Chi", "Psi", "Omega", "A1", "B2", "X", "Yy", "ZZ", "Q9x",
    // families of names that are prefixes of each other
    "Xis", "Et", "Etas", "Nu1", "Pip", "Ta", "A1b", "Ps", "Ch", "Om", "Rh", "Rhos", "Mux", "Be", "Al", "Alp",
    // names that differ only in case from others, snake case, leading underscore
    "xi", "XI", "alpha", "ETA", "mu", "x", "_Gam", "beta_1",
];
/// keywords that can be raw identifiers; usable as rule and field names
pub const KEYWORD_NAMES: &[&str] = &[
    "as", "break", "const", "continue", "else", "enum", "extern", "false", "fn", "for", "if", "impl", "in", "let",
    "loop", "match", "mod", "move", "mut", "pub", "ref", "return", "static", "struct", "trait", "true", "type",
    "unsafe", "use", "where", "while", "async", "await", "dyn", "abstract", "become", "box", "do", "final", "macro",
    "override", "priv", "typeof", "unsized", "virtual", "yield", "try", "gen", "union", "auto", "default",
];
pub const FIELD_NAMES: &[&str] = &["a", "b", "c", "x", "y", "val", "item", "lhs", "rhs", "f1", "op", "tail_", "k9", "_u", "Up", "Val", "ITEM", "A"];

const ASCII_ALPHA: &[char] = &['a', 'b', 'c', 'x', 'y', 'z', '0', '1', 'A', 'B', 'Z'];
const ASCII_PUNCT: &[char] = &['+', '-', '*', '/', '(', ')', ',', ';', '=', '<', '#', '_', '.', ':', '!', '&', '@'];
const UNI: &[char] = &['é', 'ß', 'ж', '→', '☃', '🙂', 'İ', 'ǅ', '\u{80}', '\u{7ff}', '\u{800}', '\u{ffff}', '\u{10000}', '\u{10ffff}', 'ａ', 'K'];
const ESC: &[char] = &['\n', '\t', '\r', '\'', '"', '\\', '\u{7f}', '\0', '\u{1b}', ' '];

#[derive(Debug, Clone, Copy, PartialEq, Eq)]
enum PK {
    Struct,
    Unit,
    Str,
    Override,
    Enum,
    CharClass,
    Extern,
}

#[derive(Clone, Copy, PartialEq, Eq, Debug)]
enum Mode {
    Named,
    NoFields,
}

#[derive(Clone, Copy)]
struct Ctx {
    i: usize,
    left: bool,
    mode: Mode,
    in_look: bool,
}

pub struct Gen<'a, 'b> {
    pub src: &'b mut Src<'a>,
    pub prof: Profile,
    names: Vec<String>,
    kinds: Vec<PK>,
    nonnull: Vec<bool>,
    rules: Vec<Option<RuleDef>>,
    field_pool: Vec<String>,
    used_fields: Vec<String>,
    ext_fn: Vec<&'static str>,
    pub rejected: Option<&'static str>,
}

#[derive(Debug, Clone, PartialEq, Eq, PartialOrd, Ord, Hash)]
pub enum WfError {
    LeftRecursion(String),
    NullableClosure(String),
    Shape(String),
    InfiniteType(String),
    AliasCycle(String),
    MissingRule(String),
    PositionImpl(String),
}

impl<'a, 'b> Gen<'a, 'b> {
    pub fn new(src: &'b mut Src<'a>, prof: Profile) -> Self {
        Gen { src, prof, names: vec![], kinds: vec![], nonnull: vec![], rules: vec![], field_pool: vec![], used_fields: vec![], ext_fn: vec![], rejected: None }
    }

    fn plan(&mut self) {
        let n = self.src.range(self.prof.min_rules, self.prof.max_rules);
        let mut pool: Vec<&str> = RULE_NAMES.to_vec();
        if self.prof.keyword_names {
            pool.extend_from_slice(KEYWORD_NAMES);
        }
        // choose distinct names
        for _ in 0..n {
            let k = self.src.pick(pool.len());
            self.names.push(pool.remove(k).to_string());
        }
        self.field_pool = FIELD_NAMES.iter().map(|s| s.to_string()).collect();
        if self.prof.keyword_names {
            for _ in 0..6 {
                let k = *self.src.choose(KEYWORD_NAMES);
                // a field named like a rule collides with that rule's type name in the generated
                // module (e.g. a binding shadowing a unit struct): excluded like other name collisions
                if !self.field_pool.iter().any(|f| f == k) && !self.names.iter().any(|n| n == k) {
                    self.field_pool.push(k.to_string());
                }
            }
        }
        let names = self.names.clone();
        self.field_pool.retain(|f| !names.contains(f));
        let p = &self.prof;
        let weights = [p.k_struct, p.k_unit, p.k_string, p.k_override, p.k_enum, p.k_charclass, p.k_extern];
        for i in 0..n {
            let k = if i == 0 {
                // first rule: always an exportable normal rule
                if self.src.chance(60) { PK::Unit } else { PK::Struct }
            } else {
                match self.src.weighted(&weights) {
                    0 => PK::Struct,
                    1 => PK::Unit,
                    2 => PK::Str,
                    3 => PK::Override,
                    4 => PK::Enum,
                    5 => PK::CharClass,
                    _ => PK::Extern,
                }
            };
            self.kinds.push(k);
            let mut f = "";
            if k == PK::Extern {
                let pool: &[&str] = &["ext_word", "ext_one", "ext_num", "ext_opt_a", "ext_wide", "ext_upto", "ext_fail", "ext_word", "ext_num"];
                f = *self.src.choose(pool);
            }
            self.ext_fn.push(f);
            let nn = match k {
                PK::CharClass => true,
                PK::Extern => !hooks::extern_can_be_empty(f),
                _ => !self.src.chance(self.prof.p_nullable_rule),
            };
            self.nonnull.push(nn);
        }
        self.rules = vec![None; n];
    }

    // ---------------------------------------------------------------- terminals
    fn lit_char(&mut self) -> char {
        if self.src.chance(self.prof.p_unicode) {
            *self.src.choose(UNI)
        } else if self.src.chance(self.prof.p_escape_chars) {
            *self.src.choose(ESC)
        } else if self.src.chance(60) {
            *self.src.choose(ASCII_PUNCT)
        } else {
            *self.src.choose(ASCII_ALPHA)
        }
    }

    fn literal(&mut self) -> Expr {
        if self.src.chance(self.prof.p_empty_lit) {
            return Expr::Lit { s: String::new(), insensitive: false };
        }
        let insensitive = self.src.chance(self.prof.p_insensitive);
        let len = 1 + self.src.weighted(&[24, 12, 4, 2, 1, 0, 1, 0, 0, 1]);
        let mut s = String::new();
        for _ in 0..len {
            if insensitive {
                let pool: &[char] = &['a', 'B', 'c', 'X', 'y', 'Z', '0', '-', 'k', 'K', 's', 'I', 'i', '_', '@', '[', ']', '^', '{', '|', '}', '~', '`', '\\', '\t', ' ', '!', '?', '\x7f'];
                s.push(*self.src.choose(pool));
            } else {
                s.push(self.lit_char());
            }
        }
        Expr::Lit { s, insensitive }
    }

    fn range(&mut self) -> (char, char) {
        if self.src.chance(8) {
            // "truncation traps": one bound ASCII, the other a code point whose low byte is an ASCII value
            // (U+0100, U+0141 'A', U+0261 'a', U+0800, U+10000); in either order (the reversed one matches nothing)
            let wide = *self.src.choose(&['\u{100}', '\u{141}', '\u{261}', '\u{800}', '\u{10000}', '\u{17a}']);
            let narrow = *self.src.choose(&['a', 'z', '~', 'A', '0', ' ']);
            return if self.src.chance(128) { (wide, narrow) } else { (narrow, wide) };
        }
        let a = self.lit_char();
        let kind = self.src.weighted(&[6, 3, 2, 1]);
        let b = match kind {
            0 => char::from_u32(a as u32 + self.src.range(1, 6) as u32).unwrap_or(a),
            1 => a,
            2 => self.lit_char(),
            _ => char::from_u32(a as u32 + self.src.range(100, 3000) as u32).unwrap_or(a),
        };
        if a <= b || self.src.chance(14) {
            // (rarely) a reversed range: accepted by the compiler, matches nothing
            (a, b)
        } else {
            (b, a)
        }
    }

    // ---------------------------------------------------------------- analysis on partial grammar
    fn idx(&self, name: &str) -> Option<usize> {
        self.names.iter().position(|n| n == name)
    }

    fn is_nonnull(&self, e: &Expr) -> bool {
        match e {
            Expr::Choice(v) => v.iter().all(|e| self.is_nonnull(e)),
            Expr::Seq(v) => v.iter().any(|e| self.is_nonnull(e)),
            Expr::Group(b) | Expr::Plus(b) => self.is_nonnull(b),
            Expr::Opt(_) | Expr::Star(_) | Expr::Not(_) | Expr::And(_) | Expr::Eoi => false,
            Expr::Lit { s, .. } => !s.is_empty(),
            Expr::Range(..) => true,
            Expr::Include(r) => match self.idx(r).and_then(|j| self.rules[j].as_ref()) {
                Some(RuleDef::Normal(n)) => self.is_nonnull(&n.body),
                _ => false,
            },
            Expr::Ref { typ, .. } => {
                if typ == "char" {
                    true
                } else {
                    self.idx(typ).map_or(false, |j| self.nonnull[j])
                }
            }
        }
    }

    fn body_fields_empty(&self, j: usize) -> bool {
        match &self.rules[j] {
            Some(RuleDef::Normal(n)) => {
                let g = self.partial_grammar();
                matches!(fields_of(&g, &n.body, 0), Ok(f) if f.is_empty())
            }
            _ => false,
        }
    }
    fn body_has_override(&self, j: usize) -> bool {
        match &self.rules[j] {
            Some(RuleDef::Normal(n)) => {
                let g = self.partial_grammar();
                match fields_of(&g, &n.body, 0) {
                    Ok(f) => f.iter().any(|f| f.name == shapes::OVERRIDE),
                    Err(_) => true,
                }
            }
            _ => true,
        }
    }

    fn partial_grammar(&self) -> Grammar {
        Grammar { rules: self.rules.iter().flatten().cloned().collect() }
    }

    // ---------------------------------------------------------------- expression generation
    fn ref_target(&mut self, ctx: Ctx, want_normal_only: bool) -> Option<String> {
        let n = self.names.len();
        let mut cands: Vec<usize> = if ctx.left { (ctx.i + 1..n).collect() } else { (0..n).collect() };
        if want_normal_only {
            cands.retain(|j| !matches!(self.kinds[*j], PK::CharClass | PK::Extern));
        }
        if cands.is_empty() {
            return None;
        }
        // bias towards later rules (smaller subtrees)
        let k = self.src.pick(cands.len());
        Some(self.names[cands[k]].clone())
    }

    fn field_name(&mut self) -> String {
        if !self.used_fields.is_empty() && self.src.chance(self.prof.p_reuse_field) {
            let k = self.src.pick(self.used_fields.len());
            return self.used_fields[k].clone();
        }
        let k = self.src.pick(self.field_pool.len());
        let f = self.field_pool[k].clone();
        if !self.used_fields.contains(&f) {
            self.used_fields.push(f.clone());
        }
        f
    }

    fn gen_leaf(&mut self, ctx: Ctx) -> Expr {
        let p = self.prof.clone();
        let field_w = if ctx.mode == Mode::Named && !ctx.in_look { p.w_field } else { 0 };
        match self.src.weighted(&[p.w_lit, p.w_range, p.w_anon, field_w, p.w_eoi]) {
            0 => self.literal(),
            1 => {
                let (a, b) = self.range();
                Expr::Range(a, b)
            }
            2 => {
                if self.src.chance(40) {
                    Expr::anon("char")
                } else if self.src.chance(10) {
                    // the built-in (or the grammar's own) whitespace rule used like a regular rule
                    Expr::anon("Whitespace")
                } else {
                    match self.ref_target(ctx, false) {
                        Some(t) => Expr::anon(&t),
                        None => self.literal(),
                    }
                }
            }
            3 => {
                let name = self.field_name();
                let typ = if self.src.chance(p.p_char_field) {
                    "char".to_string()
                } else {
                    match self.ref_target(ctx, false) {
                        Some(t) => t,
                        None => "char".to_string(),
                    }
                };
                // (the built-in `char` may be boxed too: `x:*char` is `Box<char>`)
                let boxed = (typ != "char" || self.src.chance(70)) && self.src.chance(p.p_boxed);
                Expr::Ref { field: FieldName::Named(name), boxed, typ }
            }
            _ => Expr::Eoi,
        }
    }

    fn gen_expr(&mut self, depth: usize, ctx: Ctx) -> Expr {
        if depth == 0 || self.src.exhausted() {
            return self.gen_leaf(ctx);
        }
        let p = self.prof.clone();
        let leaf_w = p.w_lit + p.w_range + p.w_anon + p.w_field;
        let rec_w = if ctx.mode == Mode::Named && !ctx.in_look { p.w_record } else { 0 };
        let w = [leaf_w, p.w_seq * 2, p.w_choice, p.w_opt, p.w_star, p.w_plus, p.w_not, p.w_and, p.w_include, p.w_group, rec_w];
        match self.src.weighted(&w) {
            10 => {
                // a "record": several DISTINCT named fields separated by literals, plain or under [] / {} / {}+
                // (the multi-field forms of the optional, closure and sequence templates)
                let nf = 2 + self.src.weighted(&[6, 3, 1]);
                let mut parts = vec![];
                let mut c = ctx;
                if self.src.chance(170) {
                    parts.push(self.nonempty_literal());
                    c.left = false;
                }
                let mut used: Vec<String> = vec![];
                for k in 0..nf {
                    let mut name = self.field_name();
                    let mut guard = 0;
                    while used.contains(&name) && guard < 8 {
                        let i = self.src.pick(self.field_pool.len());
                        name = self.field_pool[i].clone();
                        guard += 1;
                    }
                    if used.contains(&name) {
                        continue;
                    }
                    used.push(name.clone());
                    if !self.used_fields.contains(&name) {
                        self.used_fields.push(name.clone());
                    }
                    let typ = if self.src.chance(p.p_char_field) { "char".to_string() } else { self.ref_target(c, false).unwrap_or_else(|| "char".to_string()) };
                    // (the built-in `char` may be boxed too: `x:*char` is `Box<char>`)
                let boxed = (typ != "char" || self.src.chance(70)) && self.src.chance(p.p_boxed);
                    let r = Expr::Ref { field: FieldName::Named(name), boxed, typ };
                    if self.is_nonnull(&r) {
                        c.left = false;
                    }
                    parts.push(r);
                    if k + 1 < nf || self.src.chance(128) {
                        parts.push(self.nonempty_literal());
                        c.left = false;
                    }
                }
                let body = Expr::Seq(parts);
                match self.src.weighted(&[3, 5, 4, 2]) {
                    0 => body,
                    1 => Expr::Opt(Box::new(body)),
                    2 if self.is_nonnull(&body) => Expr::Star(Box::new(body)),
                    3 if self.is_nonnull(&body) => Expr::Plus(Box::new(body)),
                    _ => Expr::Opt(Box::new(body)),
                }
            }
            0 => self.gen_leaf(ctx),
            1 => {
                let n = 2 + self.src.weighted(&[16, 10, 4, 2, 1, 1]);
                let mut parts = vec![];
                let mut c = ctx;
                for _ in 0..n {
                    let e = self.gen_expr(depth - 1, c);
                    if self.is_nonnull(&e) {
                        c.left = false;
                    }
                    parts.push(e);
                }
                Expr::Seq(parts)
            }
            2 if self.src.chance(p.p_shared_prefix) => {
                // alternatives sharing a prefix: `P x | P y | P z` (the prefix is re-attempted at one offset)
                let n = 2 + self.src.weighted(&[6, 4, 1]);
                let prefix = if self.src.chance(200) {
                    match self.ref_target(ctx, true) {
                        Some(t) => {
                            if ctx.mode == Mode::Named && !ctx.in_look && self.src.chance(128) {
                                let name = self.field_name();
                                Expr::Ref { field: FieldName::Named(name), boxed: false, typ: t }
                            } else {
                                Expr::anon(&t)
                            }
                        }
                        None => self.gen_expr(depth - 1, ctx),
                    }
                } else {
                    self.gen_expr(depth - 1, ctx)
                };
                let mut c = ctx;
                if self.is_nonnull(&prefix) {
                    c.left = false;
                }
                let mut arms = vec![];
                for k in 0..n {
                    let rest = if k == n - 1 && self.src.chance(40) { Expr::Seq(vec![]) } else { self.gen_expr((depth - 1).min(2), c) };
                    arms.push(Expr::Seq(vec![prefix.clone(), rest]));
                }
                Expr::Choice(arms)
            }
            2 => {
                let n = 2 + self.src.weighted(&[16, 8, 2, 1, 1]);
                let mut arms = vec![];
                for k in 0..n {
                    // an empty alternative (always matches) at low weight, only as the last arm
                    if k == n - 1 && self.src.chance(6) {
                        arms.push(Expr::Seq(vec![]));
                    } else {
                        arms.push(self.gen_expr(depth - 1, ctx));
                    }
                }
                Expr::Choice(arms)
            }
            3 => Expr::Opt(Box::new(self.gen_expr(depth - 1, ctx))),
            4 | 5 => {
                let mut body = self.gen_expr(depth - 1, ctx);
                if !self.is_nonnull(&body) {
                    let l = self.nonempty_literal();
                    body = if self.src.chance(128) { Expr::Seq(vec![l, body]) } else { Expr::Seq(vec![body, l]) };
                }
                if self.src.weighted(&[p.w_star, p.w_plus]) == 0 {
                    Expr::Star(Box::new(body))
                } else {
                    Expr::Plus(Box::new(body))
                }
            }
            6 | 7 => {
                let c = Ctx { in_look: true, mode: Mode::NoFields, ..ctx };
                let body = self.gen_expr((depth - 1).min(2), c);
                if self.src.weighted(&[p.w_not, p.w_and]) == 0 {
                    Expr::Not(Box::new(body))
                } else {
                    Expr::And(Box::new(body))
                }
            }
            8 => {
                // include: only already generated normal rules with higher index (no include cycles)
                let n = self.names.len();
                let cands: Vec<usize> = (ctx.i + 1..n)
                    .filter(|j| matches!(self.rules[*j], Some(RuleDef::Normal(_))))
                    .filter(|j| self.names[*j] != "Whitespace")
                    .filter(|j| {
                        if ctx.mode == Mode::NoFields || ctx.in_look {
                            self.body_fields_empty(*j)
                        } else {
                            !self.body_has_override(*j)
                        }
                    })
                    .collect();
                if cands.is_empty() {
                    self.gen_leaf(ctx)
                } else {
                    let j = cands[self.src.pick(cands.len())];
                    // fields of the included rule become usable names here
                    if let Some(RuleDef::Normal(nr)) = &self.rules[j] {
                        let g = self.partial_grammar();
                        if let Ok(fs) = fields_of(&g, &nr.body, 0) {
                            for f in fs {
                                if !self.used_fields.contains(&f.name) {
                                    self.used_fields.push(f.name);
                                }
                            }
                        }
                    }
                    Expr::Include(self.names[j].clone())
                }
            }
            _ => Expr::Group(Box::new(self.gen_expr(depth - 1, ctx))),
        }
    }

    fn nonempty_literal(&mut self) -> Expr {
        loop {
            let l = self.literal();
            if let Expr::Lit { s, .. } = &l {
                if !s.is_empty() {
                    return l;
                }
            }
        }
    }

    /// field-less expression
    fn noise(&mut self, depth: usize, ctx: Ctx) -> Expr {
        self.gen_expr(depth, Ctx { mode: Mode::NoFields, ..ctx })
    }

    fn gen_override_arm(&mut self, ctx: Ctx, typ: Option<&str>, allow_brackets: bool) -> (Expr, String) {
        let mut parts = vec![];
        let mut c = ctx;
        if self.src.chance(110) {
            let e = self.noise(1, c);
            if self.is_nonnull(&e) {
                c.left = false;
            }
            parts.push(e);
        }
        let t = match typ {
            Some(t) if !(c.left && self.idx(t).map_or(false, |j| j <= ctx.i)) => t.to_string(),
            _ => {
                if self.src.chance(30) {
                    "char".to_string()
                } else {
                    self.ref_target(c, false).unwrap_or_else(|| "char".to_string())
                }
            }
        };
        let boxed = (t != "char" || self.src.chance(70)) && self.src.chance(self.prof.p_boxed);
        let r = Expr::Ref { field: FieldName::Override, boxed, typ: t.clone() };
        let r = if allow_brackets && self.src.chance(self.prof.p_override_in_brackets) {
            if self.src.chance(128) {
                Expr::Opt(Box::new(r))
            } else {
                let sep = self.nonempty_literal();
                let body = if self.is_nonnull(&r) { if self.src.chance(128) { Expr::Seq(vec![r, sep]) } else { r } } else { Expr::Seq(vec![r, sep]) };
                Expr::Star(Box::new(body))
            }
        } else {
            r
        };
        parts.push(r);
        if self.src.chance(90) {
            let e = self.noise(1, Ctx { left: false, ..c });
            parts.push(e);
        }
        (Expr::Seq(parts), t)
    }

    fn gen_rule(&mut self, i: usize) {
        let name = self.names[i].clone();
        self.used_fields.clear();
        let p = self.prof.clone();
        let kind = self.kinds[i];
        match kind {
            PK::CharClass => {
                let n = 1 + self.src.weighted(&[4, 5, 3, 1]);
                let mut parts = vec![];
                // "Latin-1 class": only characters up to U+00FF (every one of them can be spelled \xNN), no references
                let latin1 = self.prof.p_unicode > 0 && self.src.chance(36);
                for _ in 0..n {
                    if latin1 {
                        let pool: &[char] = &['\u{80}', '\u{a0}', '\u{c0}', '\u{c3}', '\u{df}', '\u{e9}', '\u{f4}', '\u{ff}', 'a', 'z', '0', '_'];
                        if self.src.chance(128) {
                            parts.push(CharPart::Char(*self.src.choose(pool)));
                        } else {
                            let (a, b) = (*self.src.choose(pool), *self.src.choose(pool));
                            parts.push(if a <= b { CharPart::Range(a, b) } else { CharPart::Range(b, a) });
                        }
                        continue;
                    }
                    match self.src.weighted(&[5, 5, 2]) {
                        0 => parts.push(CharPart::Char(self.lit_char())),
                        1 => {
                            let (a, b) = self.range();
                            parts.push(CharPart::Range(a, b))
                        }
                        _ => {
                            let cands: Vec<usize> =
                                (i + 1..self.names.len()).filter(|j| self.kinds[*j] == PK::CharClass).collect();
                            if cands.is_empty() {
                                if self.src.chance(60) {
                                    parts.push(CharPart::Class("char".into()))
                                } else {
                                    parts.push(CharPart::Char(self.lit_char()))
                                }
                            } else {
                                let j = cands[self.src.pick(cands.len())];
                                parts.push(CharPart::Class(self.names[j].clone()))
                            }
                        }
                    }
                }
                let mut before = vec![];
                let mut after = vec![];
                if self.src.chance(p.p_check) {
                    let nchk = 1 + self.src.weighted(&[5, 1]);
                    for _ in 0..nchk {
                        let c = *self.src.choose(hooks::CHAR_CHECKS);
                        let path = vec!["verif_core".to_string(), "hooks".to_string(), c.to_string()];
                        if self.src.chance(128) {
                            before.push(path)
                        } else {
                            after.push(path)
                        }
                    }
                }
                self.rules[i] = Some(RuleDef::CharClass(CharRule { name, checks_before: before, checks_after: after, parts }));
            }
            PK::Extern => {
                let f = self.ext_fn[i];
                let fname = if p.user_ctx { format!("c_{f}") } else { f.to_string() };
                let ret = hooks::extern_ret(f).map(|r| r.split("::").map(|s| s.to_string()).collect());
                self.rules[i] = Some(RuleDef::Extern(ExternRule {
                    name,
                    function: vec!["verif_core".into(), "hooks".into(), fname],
                    ret,
                }));
            }
            _ => {
                let ctx = Ctx { i, left: true, mode: Mode::Named, in_look: false };
                let depth = self.src.range(1, p.max_depth);
                let mut body = match kind {
                    // a @string rule whose body consists of `@:` overrides (documented: all field declarations are ignored)
                    PK::Str if self.src.chance(50) => {
                        let arms = 1 + self.src.weighted(&[4, 4, 2]);
                        let mut v = vec![];
                        for _ in 0..arms {
                            let (e, _) = self.gen_override_arm(ctx, None, true);
                            v.push(e);
                        }
                        if v.len() == 1 {
                            v.pop().unwrap()
                        } else {
                            Expr::Choice(v)
                        }
                    }
                    PK::Struct | PK::Str => self.gen_expr(depth, ctx),
                    PK::Unit => self.noise(depth, ctx),
                    PK::Override => {
                        let arms = 1 + self.src.weighted(&[6, 3, 1]);
                        let (first, t) = self.gen_override_arm(ctx, None, true);
                        let mut v = vec![first];
                        for _ in 1..arms {
                            let (e, t2) = self.gen_override_arm(ctx, Some(&t), true);
                            if t2 != t {
                                // could not reuse the type at a left position: keep single arm
                                continue;
                            }
                            v.push(e);
                        }
                        if v.len() == 1 {
                            v.pop().unwrap()
                        } else {
                            Expr::Choice(v)
                        }
                    }
                    PK::Enum => {
                        let arms = 2 + self.src.weighted(&[6, 4, 2]);
                        let mut v = vec![];
                        for _ in 0..arms {
                            let (e, _) = self.gen_override_arm(ctx, None, false);
                            v.push(e);
                        }
                        Expr::Choice(v)
                    }
                    _ => unreachable!(),
                };
                if self.nonnull[i] && !self.is_nonnull(&body) {
                    let l = self.nonempty_literal();
                    body = Expr::Seq(vec![l, body]);
                }
                let mut directives = vec![];
                if kind == PK::Str {
                    directives.push(Directive::String);
                }
                if self.src.chance(p.p_no_skip_ws) || (kind == PK::Str && self.src.chance(150)) {
                    directives.push(Directive::NoSkipWs);
                }
                if kind != PK::Override && self.src.chance(p.p_position) {
                    directives.push(Directive::Position);
                }
                if self.src.chance(p.p_memoize) {
                    directives.push(Directive::Memoize);
                }
                if matches!(kind, PK::Struct | PK::Unit | PK::Enum) && (i == 0 || self.src.chance(p.p_export)) {
                    directives.push(Directive::Export);
                }
                if self.src.chance(p.p_check) {
                    let nchk = 1 + self.src.weighted(&[6, 1]);
                    for _ in 0..nchk {
                        let c = *self.src.choose(hooks::CHECKS);
                        let fname = if p.user_ctx { format!("c_{c}") } else { c.to_string() };
                        directives.push(Directive::Check(vec!["verif_core".into(), "hooks".into(), fname]));
                    }
                }
                // random directive order
                if directives.len() > 1 && self.src.chance(128) {
                    let k = self.src.pick(directives.len());
                    directives.rotate_left(k);
                }
                self.rules[i] = Some(RuleDef::Normal(NormalRule { name, directives, body }));
            }
        }
    }

    /// "twin" callers: a copy of a rule with the opposite whitespace setting and a different tail, both tried
    /// as alternatives of the first rule, so that one callee is reached at (nearly) the same offsets from a
    /// skipping and a non-skipping context within one parse
    fn add_twin(&mut self, g: &mut Grammar) {
        let cands: Vec<usize> = g
            .rules
            .iter()
            .enumerate()
            .skip(1)
            .filter(|(_, r)| match r {
                RuleDef::Normal(n) => {
                    matches!(&n.body, Expr::Seq(parts) if parts.len() >= 2 && parts.iter().any(|p| {
                        let mut has_ref = false;
                        p.walk(&mut |e| if matches!(e, Expr::Ref { typ, .. } if typ != "char") { has_ref = true });
                        has_ref
                    })) && !n.leftrec() && n.name != "Whitespace"
                }
                _ => false,
            })
            .map(|(i, _)| i)
            .collect();
        if cands.is_empty() {
            return;
        }
        let j = cands[self.src.pick(cands.len())];
        let orig = match &g.rules[j] {
            RuleDef::Normal(n) => n.clone(),
            _ => return,
        };
        let mut twin = orig.clone();
        twin.name = format!("{}Tw", orig.name);
        if twin.no_skip_ws() {
            twin.remove(&Directive::NoSkipWs);
        } else {
            twin.add(Directive::NoSkipWs);
        }
        twin.remove(&Directive::Export);
        if let Expr::Seq(parts) = &mut twin.body {
            let tail = self.nonempty_literal();
            if self.src.chance(128) {
                parts.push(tail);
            } else {
                let k = parts.len() - 1;
                // keep fields of the last part out of the picture only if it has none
                let mut has_field = false;
                parts[k].walk(&mut |e| if matches!(e, Expr::Ref { field, .. } if *field != FieldName::None) { has_field = true });
                if has_field {
                    parts.push(tail);
                } else {
                    parts[k] = tail;
                }
            }
        }
        // the first normal rule referenced by the shared part becomes offset-sensitive: skipping and @position
        let mut callee: Option<String> = None;
        orig.body.walk(&mut |e| {
            if let Expr::Ref { typ, .. } = e {
                if callee.is_none() && matches!(g.find(typ), Some(RuleDef::Normal(_))) && *typ != orig.name {
                    callee = Some(typ.clone());
                }
            }
        });
        if let Some(c) = callee {
            if self.src.chance(235) {
                if let Some(n) = g.normal_mut(&c) {
                    n.remove(&Directive::NoSkipWs);
                    if self.src.chance(180) {
                        n.add(Directive::Position);
                    }
                }
            }
        }
        let (first, second) = if self.src.chance(128) { (twin.name.clone(), orig.name.clone()) } else { (orig.name.clone(), twin.name.clone()) };
        // exportable kinds only as named fields; aliases / strings are fine as field types too
        let fname = "tw".to_string();
        if let RuleDef::Normal(r0) = &mut g.rules[0] {
            let old = std::mem::replace(&mut r0.body, Expr::Eoi);
            r0.body = Expr::Choice(vec![
                Expr::Ref { field: FieldName::Named(fname.clone()), boxed: false, typ: first },
                Expr::Ref { field: FieldName::Named(fname), boxed: false, typ: second },
                old,
            ]);
        }
        g.rules.insert(j, RuleDef::Normal(twin));
    }

    /// "sibling" rules whose names are prefixes of each other (`Sib`, `SibX`), the longer one defined first, used
    /// (a) as two types of one field (both @string: same Rust payload) and (b) as an include target: anything that
    /// looks rules or variants up by a name prefix instead of the exact name shows here
    fn add_siblings(&mut self, g: &mut Grammar) {
        if g.find("Sib").is_some() {
            return;
        }
        let string_kind = self.src.chance(150);
        let (sibx, sib) = if string_kind {
            (
                NormalRule {
                    name: "SibX".into(),
                    directives: vec![Directive::String, Directive::NoSkipWs],
                    body: Expr::Seq(vec![Expr::lit("x"), Expr::Plus(Box::new(Expr::Choice(vec![Expr::Range('0', '9'), Expr::Range('a', 'f')])))]),
                },
                NormalRule { name: "Sib".into(), directives: vec![Directive::String, Directive::NoSkipWs], body: Expr::Plus(Box::new(Expr::Range('0', '9'))) },
            )
        } else {
            (
                NormalRule {
                    name: "SibX".into(),
                    directives: vec![],
                    body: Expr::Seq(vec![Expr::lit("x"), Expr::named("hx", "char"), Expr::Opt(Box::new(Expr::named("tl", "char")))]),
                },
                NormalRule { name: "Sib".into(), directives: vec![], body: Expr::Seq(vec![Expr::named("d", "char"), Expr::Star(Box::new(Expr::Seq(vec![Expr::lit(","), Expr::named("d", "char")])))]) },
            )
        };
        let use_include = !string_kind && self.prof.w_include > 0;
        if let RuleDef::Normal(r0) = &mut g.rules[0] {
            let old = std::mem::replace(&mut r0.body, Expr::Eoi);
            r0.body = if use_include {
                Expr::Choice(vec![Expr::Seq(vec![Expr::lit("#"), Expr::Include("Sib".into()), Expr::lit("#")]), old])
            } else {
                Expr::Choice(vec![Expr::named("sb", "SibX"), Expr::named("sb", "Sib"), old])
            };
        }
        // the longer name first (grammar order matters for first-match lookups)
        g.rules.push(RuleDef::Normal(sibx));
        g.rules.push(RuleDef::Normal(sib));
    }

    /// `[nt:NulS]` / `[nt:NulS nr:NulR]` appended to a struct rule, where `NulS` / `NulR` can match the empty string: an
    /// optional whose body succeeds without consuming - also when the input is exhausted - must still fill its fields
    fn add_nullable_tail(&mut self, g: &mut Grammar) {
        if g.find("NulS").is_some() || g.find("NulR").is_some() {
            return;
        }
        let snapshot = g.clone();
        let cands: Vec<usize> = g
            .rules
            .iter()
            .enumerate()
            .filter_map(|(i, r)| match r {
                RuleDef::Normal(n) if !n.string() && !n.leftrec() && n.name != "Whitespace" => match fields_of(&snapshot, &n.body, 0) {
                    Ok(fs) if !fs.is_empty() && fs.iter().all(|f| f.name != shapes::OVERRIDE && f.name != "nt" && f.name != "nr") => Some(i),
                    _ => None,
                },
                _ => None,
            })
            .collect();
        if cands.is_empty() {
            return;
        }
        let i = cands[self.src.pick(cands.len())];
        let two = self.src.chance(90);
        let sep = self.src.chance(128);
        if let RuleDef::Normal(n) = &mut g.rules[i] {
            let old = std::mem::replace(&mut n.body, Expr::Eoi);
            let mut inner = vec![];
            if sep {
                inner.push(Expr::Opt(Box::new(Expr::lit("~"))));
            }
            inner.push(Expr::named("nt", "NulS"));
            if two {
                inner.push(Expr::named("nr", "NulR"));
            }
            n.body = Expr::Seq(vec![Expr::Group(Box::new(old)), Expr::Opt(Box::new(Expr::Seq(inner)))]);
        }
        g.rules.push(RuleDef::Normal(NormalRule {
            name: "NulS".into(),
            directives: vec![Directive::String, Directive::NoSkipWs],
            body: Expr::Star(Box::new(Expr::lit("y"))),
        }));
        if two {
            g.rules.push(RuleDef::Normal(NormalRule {
                name: "NulR".into(),
                directives: vec![],
                body: Expr::Star(Box::new(Expr::Seq(vec![Expr::lit(","), Expr::named("items", "char")]))),
            }));
        }
    }

    fn gen_custom_ws(&mut self) -> Vec<RuleDef> {
        if self.src.chance(36) {
            // the Whitespace rule as an @extern rule (a total user function: space, tab, underscore)
            return vec![RuleDef::Extern(ExternRule {
                name: "Whitespace".into(),
                function: vec!["verif_core".into(), "hooks".into(), "ext_ws".into()],
                ret: None,
            })];
        }
        // total by construction: a closure over terminals / a @no_skip_ws comment rule
        let mut alts = vec![];
        let mut extra = vec![];
        let with_comment = self.src.chance(128);
        if with_comment {
            alts.push(Expr::anon("WsComment"));
            extra.push(RuleDef::Normal(NormalRule {
                name: "WsComment".into(),
                directives: vec![Directive::NoSkipWs],
                body: Expr::Seq(vec![
                    Expr::lit("#"),
                    Expr::Star(Box::new(Expr::Seq(vec![Expr::Not(Box::new(Expr::lit("\n"))), Expr::anon("char")]))),
                    Expr::lit("\n"),
                ]),
            }));
        }
        let pool: &[&str] = &[" ", "\t", "\n", "_", "\u{a0}", "\u{2003}", "~", "\r\n"];
        let n = 1 + self.src.pick(4);
        for _ in 0..n {
            let s = *self.src.choose(pool);
            if !alts.iter().any(|a| matches!(a, Expr::Lit{s: t, ..} if t == s)) {
                alts.push(Expr::lit(s));
            }
        }
        let body = Expr::Star(Box::new(if alts.len() == 1 { alts.pop().unwrap() } else { Expr::Choice(alts) }));
        let mut out = vec![RuleDef::Normal(NormalRule { name: "Whitespace".into(), directives: vec![Directive::NoSkipWs], body })];
        out.extend(extra);
        out
    }

    pub fn grammar(mut self) -> Result<Grammar, &'static str> {
        self.plan();
        let n = self.names.len();
        for i in (0..n).rev() {
            self.gen_rule(i);
        }
        let mut g = Grammar { rules: self.rules.iter().flatten().cloned().collect() };
        if self.src.chance(self.prof.p_twin) {
            self.add_twin(&mut g);
        }
        if self.src.chance(self.prof.p_sibling) {
            self.add_siblings(&mut g);
        }
        if self.src.chance(self.prof.p_nullable_tail) {
            self.add_nullable_tail(&mut g);
        }
        if self.src.chance(self.prof.p_custom_ws) {
            g.rules.extend(self.gen_custom_ws());
        }
        let g = g.normalize();
        finish(g)
    }
}

/// Post passes shared by all generators: break type cycles with boxes, fix @position on enum
/// overrides, validate.
pub fn finish(mut g: Grammar) -> Result<Grammar, &'static str> {
    // drop directives that the documented restrictions forbid for the kind the body turned out to have
    {
        let snapshot = g.clone();
        for r in &mut g.rules {
            if let RuleDef::Normal(n) = r {
                if let Ok(fs) = fields_of(&snapshot, &n.body, 0) {
                    let simple_override = fs.len() == 1 && fs[0].name == shapes::OVERRIDE && fs[0].types.len() == 1;
                    if n.string() {
                        n.remove(&Directive::Export);
                    } else if simple_override {
                        n.remove(&Directive::Export);
                        n.remove(&Directive::Position);
                    }
                }
            }
        }
    }
    // break nominal type cycles
    for _round in 0..12 {
        let sh = match shapes::shapes(&g) {
            Ok(s) => s,
            Err(_) => return Err("shape error"),
        };
        let mut changed = false;
        let names: Vec<String> = g.normals().map(|n| n.name.clone()).collect();
        for r in names {
            if !matches!(sh.kind(&r), Some(Kind::Struct { .. }) | Some(Kind::Enum { .. })) {
                continue;
            }
            if !sh.contains_inline(&r, &r, &mut vec![]) {
                continue;
            }
            // box every field reference in r's body (through includes) that leads back to r
            let mut todo = vec![r.clone()];
            let mut seen = BTreeSet::new();
            while let Some(cur) = todo.pop() {
                if !seen.insert(cur.clone()) {
                    continue;
                }
                let mut includes = vec![];
                if let Some(n) = g.normal_mut(&cur) {
                    n.body.walk_mut(&mut |e| match e {
                        Expr::Ref { field, boxed, typ } if *field != FieldName::None && !*boxed => {
                            if *typ == r || sh.contains_inline(typ, &r, &mut vec![]) {
                                *boxed = true;
                                changed = true;
                            }
                        }
                        Expr::Include(x) => includes.push(x.clone()),
                        _ => {}
                    });
                }
                todo.extend(includes);
            }
        }
        if !changed {
            break;
        }
    }
    // @position on enum overrides needs PegPosition on every variant
    loop {
        let sh = match shapes::shapes(&g) {
            Ok(s) => s,
            Err(_) => return Err("shape error"),
        };
        let mut fix = None;
        for n in g.normals() {
            if let Some(Kind::Enum { variants, position: true }) = sh.kind(&n.name) {
                if !variants.keys().all(|v| sh.has_position_impl(v)) {
                    fix = Some(n.name.clone());
                    break;
                }
            }
        }
        match fix {
            Some(name) => g.normal_mut(&name).unwrap().remove(&Directive::Position),
            None => break,
        }
    }
    match validate(&g) {
        Ok(()) => Ok(g),
        Err(WfError::LeftRecursion(_)) => Err("left recursion"),
        Err(WfError::NullableClosure(_)) => Err("nullable closure"),
        Err(WfError::Shape(_)) => Err("shape"),
        Err(WfError::InfiniteType(_)) => Err("infinite type"),
        Err(WfError::AliasCycle(_)) => Err("alias cycle"),
        Err(WfError::MissingRule(_)) => Err("missing rule"),
        Err(WfError::PositionImpl(_)) => Err("position impl"),
    }
}

/// Independent well-formedness check (the preconditions named in the properties' quantifiers).
pub fn validate(g: &Grammar) -> Result<(), WfError> {
    // every referenced rule exists
    for r in &g.rules {
        match r {
            RuleDef::Normal(n) => {
                let mut missing = None;
                n.body.walk(&mut |e| match e {
                    Expr::Ref { typ, .. } => {
                        let builtin = typ == "char" || typ == "Whitespace";
                        if g.find(typ).is_none() && !builtin {
                            missing = Some(typ.clone())
                        }
                    }
                    Expr::Include(x) => {
                        if g.normal(x).is_none() {
                            missing = Some(x.clone())
                        }
                    }
                    _ => {}
                });
                if let Some(m) = missing {
                    return Err(WfError::MissingRule(m));
                }
            }
            RuleDef::CharClass(c) => {
                for p in &c.parts {
                    if let CharPart::Class(n) = p {
                        if n == "char" && g.find("char").is_none() {
                            continue;
                        }
                        if !matches!(g.find(n), Some(RuleDef::CharClass(_))) {
                            return Err(WfError::MissingRule(n.clone()));
                        }
                    }
                }
            }
            RuleDef::Extern(_) => {}
        }
    }
    let sh = shapes::shapes(g).map_err(|(r, e)| WfError::Shape(format!("{r}: {e:?}")))?;
    if let Some(r) = sh.has_infinite_type() {
        return Err(WfError::InfiniteType(r));
    }
    // alias cycles (illegal in Rust regardless of Box/Vec)
    for name in sh.kinds.keys() {
        let mut cur = name.clone();
        let mut steps = 0;
        while let Some(Kind::Alias { typ, .. }) = sh.kind(&cur) {
            cur = typ.clone();
            steps += 1;
            if cur == *name || steps > sh.kinds.len() + 1 {
                return Err(WfError::AliasCycle(name.clone()));
            }
        }
    }
    for n in g.normals() {
        if let Some(Kind::Enum { variants, position: true }) = sh.kind(&n.name) {
            if !variants.keys().all(|v| sh.has_position_impl(v)) {
                return Err(WfError::PositionImpl(n.name.clone()));
            }
        }
    }
    // left recursion: rule reaches itself at the same position (leftrec rules excepted)
    let reach = left_reach(g);
    for n in g.normals() {
        if reach.get(&n.name).map_or(false, |s| s.contains(&n.name)) && !n.leftrec() {
            // allowed only if every cycle goes through a leftrec rule; conservative: reject unless
            // removing leftrec rules from the graph breaks the cycle
            if !cycle_only_through_leftrec(g, &n.name) {
                return Err(WfError::LeftRecursion(n.name.clone()));
            }
        }
    }
    // skipping rules call Whitespace at the same position
    if let Some(ws) = g.normal("Whitespace") {
        let _ = ws;
        let ws_reach = reachable_rules(g, "Whitespace");
        for r in &ws_reach {
            if let Some(n) = g.normal(r) {
                if !n.no_skip_ws() {
                    return Err(WfError::LeftRecursion(format!("Whitespace via {r}")));
                }
            }
        }
    }
    // closures with nullable bodies
    let nulls = nullable_rules(g);
    for n in g.normals() {
        let mut bad = false;
        n.body.walk(&mut |e| {
            if let Expr::Star(b) | Expr::Plus(b) = e {
                if expr_nullable(g, b, &nulls) {
                    bad = true;
                }
            }
        });
        if bad {
            return Err(WfError::NullableClosure(n.name.clone()));
        }
    }
    Ok(())
}

fn cycle_only_through_leftrec(g: &Grammar, start: &str) -> bool {
    // DFS over left-calls not passing through leftrec rules
    let nulls = nullable_rules(g);
    let mut seen = BTreeSet::new();
    let mut todo = vec![start.to_string()];
    let mut first = true;
    while let Some(cur) = todo.pop() {
        if !first && cur == start {
            return false;
        }
        if !first && !seen.insert(cur.clone()) {
            continue;
        }
        first = false;
        if let Some(n) = g.normal(&cur) {
            if n.leftrec() {
                continue;
            }
            let mut s = BTreeSet::new();
            left_calls(g, &n.body, &nulls, &mut s);
            for t in s {
                if !t.starts_with('>') {
                    todo.push(t);
                }
            }
        }
    }
    true
}

/// Add one `@export @position @no_skip_ws W_<R> = v:R;` wrapper per rule so that every rule is
/// reachable as a parse root and its consumed byte count is observable.
pub fn with_wrappers(g: &Grammar) -> Grammar {
    let mut out = g.clone();
    for r in &g.rules {
        let name = r.name();
        out.rules.push(RuleDef::Normal(NormalRule {
            name: format!("W_{name}"),
            directives: vec![Directive::Export, Directive::Position, Directive::NoSkipWs],
            body: Expr::Ref { field: FieldName::Named("v".into()), boxed: false, typ: name.to_string() },
        }));
    }
    out
}

pub fn generate(bytes: &[u8], prof: &Profile) -> Result<Grammar, &'static str> {
    let mut src = Src::new(bytes);
    Gen::new(&mut src, prof.clone()).grammar()
}
