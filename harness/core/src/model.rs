//! Grammar model: a plain AST for peginator grammars, independent of peginator's own types.
use serde::{Deserialize, Serialize};
use std::collections::{BTreeMap, BTreeSet};

#[derive(Debug, Clone, PartialEq, Eq, Serialize, Deserialize, Hash)]
pub enum FieldName {
    None,
    Named(String),
    Override,
}

#[derive(Debug, Clone, PartialEq, Eq, Serialize, Deserialize, Hash)]
pub enum Expr {
    Choice(Vec<Expr>),
    Seq(Vec<Expr>),
    Group(Box<Expr>),
    Opt(Box<Expr>),
    Star(Box<Expr>),
    Plus(Box<Expr>),
    Not(Box<Expr>),
    And(Box<Expr>),
    Lit { s: String, insensitive: bool },
    Range(char, char),
    Eoi,
    Include(String),
    Ref { field: FieldName, boxed: bool, typ: String },
}

#[derive(Debug, Clone, PartialEq, Eq, Serialize, Deserialize, Hash)]
pub enum Directive {
    Export,
    NoSkipWs,
    Position,
    String,
    Memoize,
    Leftrec,
    Check(Vec<String>),
}

#[derive(Debug, Clone, PartialEq, Eq, Serialize, Deserialize, Hash)]
pub enum CharPart {
    Char(char),
    Range(char, char),
    Class(String),
}

#[derive(Debug, Clone, PartialEq, Eq, Serialize, Deserialize, Hash)]
pub struct NormalRule {
    pub name: String,
    pub directives: Vec<Directive>,
    pub body: Expr,
}

#[derive(Debug, Clone, PartialEq, Eq, Serialize, Deserialize, Hash)]
pub struct CharRule {
    pub name: String,
    /// checks written before the `@char` directive
    pub checks_before: Vec<Vec<String>>,
    /// checks written after the `@char` directive
    pub checks_after: Vec<Vec<String>>,
    pub parts: Vec<CharPart>,
}

#[derive(Debug, Clone, PartialEq, Eq, Serialize, Deserialize, Hash)]
pub struct ExternRule {
    pub name: String,
    pub function: Vec<String>,
    pub ret: Option<Vec<String>>,
}

#[derive(Debug, Clone, PartialEq, Eq, Serialize, Deserialize, Hash)]
pub enum RuleDef {
    Normal(NormalRule),
    CharClass(CharRule),
    Extern(ExternRule),
}

#[derive(Debug, Clone, PartialEq, Eq, Serialize, Deserialize, Hash, Default)]
pub struct Grammar {
    pub rules: Vec<RuleDef>,
}

impl RuleDef {
    pub fn name(&self) -> &str {
        match self {
            RuleDef::Normal(r) => &r.name,
            RuleDef::CharClass(r) => &r.name,
            RuleDef::Extern(r) => &r.name,
        }
    }
}

impl CharRule {
    pub fn checks(&self) -> Vec<String> {
        self.checks_before
            .iter()
            .chain(self.checks_after.iter())
            .map(|p| p.join("::"))
            .collect()
    }
}

impl NormalRule {
    pub fn has(&self, d: &Directive) -> bool {
        self.directives.contains(d)
    }
    pub fn export(&self) -> bool {
        self.has(&Directive::Export)
    }
    pub fn no_skip_ws(&self) -> bool {
        self.has(&Directive::NoSkipWs)
    }
    pub fn position(&self) -> bool {
        self.has(&Directive::Position)
    }
    pub fn string(&self) -> bool {
        self.has(&Directive::String)
    }
    pub fn memoize(&self) -> bool {
        self.has(&Directive::Memoize)
    }
    pub fn leftrec(&self) -> bool {
        self.has(&Directive::Leftrec)
    }
    pub fn checks(&self) -> Vec<String> {
        self.directives
            .iter()
            .filter_map(|d| match d {
                Directive::Check(p) => Some(p.join("::")),
                _ => None,
            })
            .collect()
    }
    pub fn remove(&mut self, d: &Directive) {
        self.directives.retain(|x| x != d);
    }
    pub fn add(&mut self, d: Directive) {
        if !self.has(&d) {
            self.directives.push(d);
        }
    }
}

impl Grammar {
    pub fn find(&self, name: &str) -> Option<&RuleDef> {
        self.rules.iter().find(|r| r.name() == name)
    }
    pub fn normal(&self, name: &str) -> Option<&NormalRule> {
        match self.find(name) {
            Some(RuleDef::Normal(r)) => Some(r),
            _ => None,
        }
    }
    pub fn normal_mut(&mut self, name: &str) -> Option<&mut NormalRule> {
        self.rules.iter_mut().find_map(|r| match r {
            RuleDef::Normal(r) if r.name == name => Some(r),
            _ => None,
        })
    }
    pub fn normals(&self) -> impl Iterator<Item = &NormalRule> {
        self.rules.iter().filter_map(|r| match r {
            RuleDef::Normal(r) => Some(r),
            _ => None,
        })
    }
    pub fn has_custom_ws(&self) -> bool {
        self.find("Whitespace").is_some()
    }
    pub fn hash64(&self) -> u64 {
        use std::hash::{Hash, Hasher};
        let mut h = crate::util::Fnv::default();
        self.hash(&mut h);
        h.finish()
    }
}

impl Expr {
    pub fn lit(s: &str) -> Expr {
        Expr::Lit { s: s.to_string(), insensitive: false }
    }
    pub fn anon(typ: &str) -> Expr {
        Expr::Ref { field: FieldName::None, boxed: false, typ: typ.to_string() }
    }
    pub fn named(f: &str, typ: &str) -> Expr {
        Expr::Ref { field: FieldName::Named(f.to_string()), boxed: false, typ: typ.to_string() }
    }
    pub fn over(typ: &str) -> Expr {
        Expr::Ref { field: FieldName::Override, boxed: false, typ: typ.to_string() }
    }

    /// Is this a "delimited expression" in the sense of grammar.ebnf (can be a sequence part
    /// or lookahead operand without parentheses)?
    pub fn is_delimited(&self) -> bool {
        !matches!(self, Expr::Choice(_) | Expr::Seq(_))
    }

    pub fn children(&self) -> Vec<&Expr> {
        match self {
            Expr::Choice(v) | Expr::Seq(v) => v.iter().collect(),
            Expr::Group(b) | Expr::Opt(b) | Expr::Star(b) | Expr::Plus(b) | Expr::Not(b) | Expr::And(b) => {
                vec![b]
            }
            _ => vec![],
        }
    }
    pub fn children_mut(&mut self) -> Vec<&mut Expr> {
        match self {
            Expr::Choice(v) | Expr::Seq(v) => v.iter_mut().collect(),
            Expr::Group(b) | Expr::Opt(b) | Expr::Star(b) | Expr::Plus(b) | Expr::Not(b) | Expr::And(b) => {
                vec![b]
            }
            _ => vec![],
        }
    }
    pub fn walk<'a>(&'a self, f: &mut dyn FnMut(&'a Expr)) {
        f(self);
        for c in self.children() {
            c.walk(f);
        }
    }
    pub fn walk_mut(&mut self, f: &mut dyn FnMut(&mut Expr)) {
        f(self);
        for c in self.children_mut() {
            c.walk_mut(f);
        }
    }
    pub fn size(&self) -> usize {
        let mut n = 0;
        self.walk(&mut |_| n += 1);
        n
    }

    /// Bring into the normal form the printer/lift round trip is exact on:
    /// * no Choice with < 2 arms, no Seq with exactly one part
    /// * Choice arms are not Choice (wrapped in Group), Seq parts are delimited (wrapped in Group)
    /// * operands of lookaheads are delimited (wrapped in Group)
    pub fn normalize(self) -> Expr {
        fn delim(e: Expr) -> Expr {
            if e.is_delimited() {
                e
            } else {
                Expr::Group(Box::new(e))
            }
        }
        match self {
            Expr::Choice(v) => {
                let mut v: Vec<Expr> = v
                    .into_iter()
                    .map(|e| e.normalize())
                    .map(|e| if matches!(e, Expr::Choice(_)) { Expr::Group(Box::new(e)) } else { e })
                    .collect();
                if v.len() == 1 {
                    v.pop().unwrap()
                } else if v.is_empty() {
                    Expr::Seq(vec![])
                } else {
                    Expr::Choice(v)
                }
            }
            Expr::Seq(v) => {
                let mut v: Vec<Expr> = v.into_iter().map(|e| delim(e.normalize())).collect();
                if v.len() == 1 {
                    v.pop().unwrap()
                } else {
                    Expr::Seq(v)
                }
            }
            Expr::Group(b) => Expr::Group(Box::new(b.normalize())),
            Expr::Opt(b) => Expr::Opt(Box::new(b.normalize())),
            Expr::Star(b) => Expr::Star(Box::new(b.normalize())),
            Expr::Plus(b) => Expr::Plus(Box::new(b.normalize())),
            Expr::Not(b) => Expr::Not(Box::new(delim(b.normalize()))),
            Expr::And(b) => Expr::And(Box::new(delim(b.normalize()))),
            e => e,
        }
    }

    /// Remove groups that are semantically transparent (used to compare models modulo parentheses).
    pub fn strip_groups(self) -> Expr {
        match self {
            Expr::Group(b) => b.strip_groups(),
            Expr::Choice(v) => {
                let mut out = vec![];
                for e in v {
                    match e.strip_groups() {
                        Expr::Choice(w) => out.extend(w),
                        e => out.push(e),
                    }
                }
                Expr::Choice(out)
            }
            Expr::Seq(v) => {
                let mut out = vec![];
                for e in v {
                    match e.strip_groups() {
                        Expr::Seq(w) => out.extend(w),
                        e => out.push(e),
                    }
                }
                if out.len() == 1 {
                    out.pop().unwrap()
                } else {
                    Expr::Seq(out)
                }
            }
            Expr::Opt(b) => Expr::Opt(Box::new(b.strip_groups())),
            Expr::Star(b) => Expr::Star(Box::new(b.strip_groups())),
            Expr::Plus(b) => Expr::Plus(Box::new(b.strip_groups())),
            Expr::Not(b) => Expr::Not(Box::new(b.strip_groups())),
            Expr::And(b) => Expr::And(Box::new(b.strip_groups())),
            e => e,
        }
    }
}

impl Grammar {
    pub fn normalize(mut self) -> Grammar {
        for r in &mut self.rules {
            if let RuleDef::Normal(n) = r {
                let b = std::mem::replace(&mut n.body, Expr::Eoi);
                n.body = b.normalize();
            }
        }
        self
    }
}

// ---------------------------------------------------------------------------------------------
// Static analyses shared by generator, oracle and checks
// ---------------------------------------------------------------------------------------------

/// Which rules can match without consuming input (least fixpoint).
pub fn nullable_rules(g: &Grammar) -> BTreeSet<String> {
    let mut set: BTreeSet<String> = BTreeSet::new();
    loop {
        let mut changed = false;
        for r in &g.rules {
            if set.contains(r.name()) {
                continue;
            }
            let n = match r {
                RuleDef::Normal(n) => expr_nullable(g, &n.body, &set),
                RuleDef::CharClass(_) => false,
                // extern rules: depends on the function; the generator tells via the name table
                RuleDef::Extern(e) => crate::hooks::extern_can_be_empty(&e.function.join("::")),
            };
            if n {
                set.insert(r.name().to_string());
                changed = true;
            }
        }
        if !changed {
            return set;
        }
    }
}

pub fn expr_nullable(g: &Grammar, e: &Expr, null_rules: &BTreeSet<String>) -> bool {
    match e {
        Expr::Choice(v) => v.iter().any(|e| expr_nullable(g, e, null_rules)),
        Expr::Seq(v) => v.iter().all(|e| expr_nullable(g, e, null_rules)),
        Expr::Group(b) => expr_nullable(g, b, null_rules),
        Expr::Opt(_) | Expr::Star(_) | Expr::Not(_) | Expr::And(_) | Expr::Eoi => true,
        Expr::Plus(b) => expr_nullable(g, b, null_rules),
        Expr::Lit { s, .. } => s.is_empty(),
        Expr::Range(..) => false,
        Expr::Include(r) => match g.normal(r) {
            Some(n) => expr_nullable(g, &n.body, null_rules),
            None => false,
        },
        // the built-in Whitespace rule (no rule of that name in the grammar) matches the empty string
        Expr::Ref { typ, .. } => null_rules.contains(typ) || (typ == "Whitespace" && g.find("Whitespace").is_none()),
    }
}

/// Rules that can be invoked at the position where `e` starts without any input consumed
/// ("left calls"), including through lookaheads (they run at the same position).
pub fn left_calls(g: &Grammar, e: &Expr, null_rules: &BTreeSet<String>, out: &mut BTreeSet<String>) {
    match e {
        Expr::Choice(v) => {
            for e in v {
                left_calls(g, e, null_rules, out)
            }
        }
        Expr::Seq(v) => {
            for e in v {
                left_calls(g, e, null_rules, out);
                if !expr_nullable(g, e, null_rules) {
                    break;
                }
            }
        }
        Expr::Group(b) | Expr::Opt(b) | Expr::Star(b) | Expr::Plus(b) | Expr::Not(b) | Expr::And(b) => {
            left_calls(g, b, null_rules, out)
        }
        Expr::Include(r) => {
            if let Some(n) = g.normal(r) {
                // guard against include cycles
                if out.insert(format!(">{r}")) {
                    left_calls(g, &n.body, null_rules, out)
                }
            }
        }
        Expr::Ref { typ, .. } => {
            out.insert(typ.clone());
        }
        _ => {}
    }
}

/// rule -> set of rules reachable at the same position (transitively).
pub fn left_reach(g: &Grammar) -> BTreeMap<String, BTreeSet<String>> {
    let nulls = nullable_rules(g);
    let mut direct: BTreeMap<String, BTreeSet<String>> = BTreeMap::new();
    for r in g.normals() {
        let mut s = BTreeSet::new();
        left_calls(g, &r.body, &nulls, &mut s);
        s.retain(|x| !x.starts_with('>'));
        direct.insert(r.name.clone(), s);
    }
    // the built-in / custom Whitespace rule is invoked at the start of most tokens of skipping rules,
    // but it never calls back (generated Whitespace rules reference only terminals/@no_skip_ws leaf rules)
    let mut reach = direct.clone();
    loop {
        let mut changed = false;
        let keys: Vec<String> = reach.keys().cloned().collect();
        for k in keys {
            let cur = reach[&k].clone();
            let mut add = BTreeSet::new();
            for t in &cur {
                if let Some(s) = direct.get(t) {
                    for x in s {
                        if !cur.contains(x) {
                            add.insert(x.clone());
                        }
                    }
                }
            }
            if !add.is_empty() {
                reach.get_mut(&k).unwrap().extend(add);
                changed = true;
            }
        }
        if !changed {
            return reach;
        }
    }
}

/// C10's precondition for "the sentinel never surfaces": every `@leftrec` rule lists its recursive alternatives first,
/// and each of them starts with a plain reference (not under a lookahead / optional / closure / nullable prefix) that
/// leads back to the rule. Computed from the grammar itself, so it stays right for shrunk grammars.
pub fn recursive_alternatives_first(g: &Grammar) -> bool {
    let nulls = nullable_rules(g);
    let reach = left_reach(g);
    for r in g.normals().filter(|n| n.leftrec()) {
        let arms: Vec<&Expr> = match strip(&r.body) {
            Expr::Choice(v) => v.iter().collect(),
            other => vec![other],
        };
        let mut seen_plain = false;
        for arm in arms {
            let mut lc = BTreeSet::new();
            left_calls(g, arm, &nulls, &mut lc);
            let recursive = lc.iter().any(|t| t == &r.name || reach.get(t).map_or(false, |s| s.contains(&r.name)));
            if !recursive {
                seen_plain = true;
                continue;
            }
            if seen_plain {
                return false;
            }
            // the recursive reference must be the plain first element of the alternative
            let first = match strip(arm) {
                Expr::Seq(v) => v.first().map(strip),
                other => Some(other),
            };
            match first {
                Some(Expr::Ref { typ, .. }) if typ == &r.name || reach.get(typ).map_or(false, |s| s.contains(&r.name)) => {}
                _ => return false,
            }
        }
        if !seen_plain {
            // no seed alternative at all (only shrinking produces this): the rule can never match and the only failure
            // there is to report is the seed itself - outside the clause
            return false;
        }
    }
    // rules on the way (e.g. `Bin = l:*Expr op r:Atom`) must start with the plain reference too
    for r in g.normals().filter(|n| !n.leftrec()) {
        let back: Vec<&NormalRule> = g.normals().filter(|l| l.leftrec() && reach.get(&r.name).map_or(false, |s| s.contains(&l.name))).collect();
        if back.is_empty() {
            continue;
        }
        let arms: Vec<&Expr> = match strip(&r.body) {
            Expr::Choice(v) => v.iter().collect(),
            other => vec![other],
        };
        let mut seen_plain = false;
        for arm in arms {
            let mut lc = BTreeSet::new();
            left_calls(g, arm, &nulls, &mut lc);
            let recursive = back.iter().any(|l| lc.iter().any(|t| t == &l.name || reach.get(t).map_or(false, |s| s.contains(&l.name))));
            if !recursive {
                seen_plain = true;
                continue;
            }
            if seen_plain {
                return false;
            }
            let first = match strip(arm) {
                Expr::Seq(v) => v.first().map(strip),
                other => Some(other),
            };
            if !matches!(first, Some(Expr::Ref { .. })) {
                return false;
            }
        }
    }
    true
}

fn strip(e: &Expr) -> &Expr {
    match e {
        Expr::Group(b) => strip(b),
        Expr::Seq(v) if v.len() == 1 => strip(&v[0]),
        Expr::Choice(v) if v.len() == 1 => strip(&v[0]),
        _ => e,
    }
}

/// All rules referenced (by Ref, Include or class part) from a rule, transitively; includes itself.
pub fn reachable_rules(g: &Grammar, root: &str) -> BTreeSet<String> {
    let mut seen = BTreeSet::new();
    let mut todo = vec![root.to_string()];
    while let Some(n) = todo.pop() {
        if !seen.insert(n.clone()) {
            continue;
        }
        match g.find(&n) {
            Some(RuleDef::Normal(r)) => {
                r.body.walk(&mut |e| match e {
                    Expr::Ref { typ, .. } => todo.push(typ.clone()),
                    Expr::Include(r) => todo.push(r.clone()),
                    _ => {}
                });
                if !r.no_skip_ws() && g.has_custom_ws() {
                    todo.push("Whitespace".into());
                }
            }
            Some(RuleDef::CharClass(c)) => {
                for p in &c.parts {
                    if let CharPart::Class(n) = p {
                        todo.push(n.clone())
                    }
                }
            }
            _ => {}
        }
    }
    seen
}
