//! Grammar *texts* for the front-end / compiler-totality properties (C12, C15, C17): valid grammars in
//! random layouts, restriction violators, mutated texts, hostile identifiers, include cycles, nesting,
//! arbitrary strings. Everything is decoded from choice bytes.
use crate::gen::{self, Profile};
use crate::model::*;
use crate::printer;
use crate::util::Src;

#[derive(Debug, Clone, Copy, PartialEq, Eq, PartialOrd, Ord, Hash, serde::Serialize, serde::Deserialize)]
pub enum Class {
    Valid,
    ValidLayout,
    Violator,
    Mutated,
    Identifier,
    IncludeCycle,
    Nesting,
    Arbitrary,
}

#[derive(Debug, Clone, Copy, PartialEq, Eq, serde::Serialize, serde::Deserialize)]
pub enum Expect {
    /// must compile to code (valid grammar with a derive set containing Clone)
    Code,
    /// must be rejected with an error value
    Err,
    /// code or error, but an answer
    Any,
}

#[derive(Debug, Clone, serde::Serialize, serde::Deserialize)]
pub struct Case {
    pub class: Class,
    pub sub: String,
    pub text: String,
    pub derives: Vec<String>,
    pub expect: Expect,
}

pub const VIOLATIONS: &[&str] = &[
    "field_in_neg_lookahead",
    "field_in_pos_lookahead",
    "override_in_lookahead",
    "mix_override_named",
    "enum_override_optional",
    "enum_override_closure",
    "enum_override_twice",
    "export_simple_override",
    "position_simple_override",
    "string_export",
    "skipping_whitespace",
    "memoize_without_clone",
    "leftrec_memoize_without_clone",
    "nonascii_insensitive_char",
    "nonascii_insensitive_string",
    "codepoint_110000_braces",
    "codepoint_surrogate_u4",
    "codepoint_surrogate_braces",
    "codepoint_U00110000",
    "codepoint_surrogate_pair_u4",
    "codepoint_surrogate_pair_mixed",
    "codepoint_in_range",
    "codepoint_in_char_rule",
    "include_missing",
    "include_char_rule",
    "include_extern_rule",
    "include_in_lookahead_with_field",
];

fn valid_model(src: &mut Src) -> Grammar {
    let profs = ["core", "fields", "mixed", "hooks", "ws", "types"];
    for _ in 0..20 {
        let p = Profile::by_name(*src.choose(&profs)).unwrap();
        let mut bytes = vec![];
        for _ in 0..300 {
            bytes.push(src.byte());
        }
        if let Ok(g) = gen::generate(&bytes, &p) {
            return g;
        }
    }
    Grammar { rules: vec![RuleDef::Normal(NormalRule { name: "A".into(), directives: vec![Directive::Export], body: Expr::lit("a") })] }
}

fn pick_normal(g: &Grammar, src: &mut Src) -> String {
    let names: Vec<&str> = g.normals().map(|n| n.name.as_str()).collect();
    names[src.pick(names.len())].to_string()
}

pub fn violator(src: &mut Src, which: &str) -> Case {
    let g = valid_model(src);
    let mut text = printer::print_canonical(&g);
    let t = pick_normal(&g, src);
    let mut derives = vec!["Debug".to_string(), "Clone".to_string()];
    let mut expect = Expect::Err;
    let bad = match which {
        "field_in_neg_lookahead" => format!("Bad = !(x:{t}) 'q';"),
        "field_in_pos_lookahead" => format!("Bad = 'q' &[x:{t}];"),
        "override_in_lookahead" => format!("Bad = !(@:{t}) 'q';"),
        "mix_override_named" => format!("Bad = @:{t} 'x' b:{t};"),
        "enum_override_optional" => format!("Bad = [@:{t}] | @:char;"),
        "enum_override_closure" => format!("Bad = {{@:{t} ','}} | 'x' @:char;"),
        "enum_override_twice" => format!("Bad = @:{t} ',' @:char;"),
        "export_simple_override" => format!("@export Bad = 'x' @:{t};"),
        "position_simple_override" => format!("@position Bad = 'x' @:{t};"),
        "string_export" => "@string @export Bad = 'x' {'y'};".to_string(),
        "skipping_whitespace" => {
            let t2 = text.replacen("@no_skip_ws Whitespace =", "Whitespace =", 1);
            if t2 != text {
                text = t2;
                String::new()
            } else if g.has_custom_ws() {
                expect = Expect::Any;
                String::new()
            } else {
                "Whitespace = {' ' | '\\t'};".to_string()
            }
        }
        "memoize_without_clone" => {
            derives = vec!["Debug".to_string()];
            "@memoize Bad = 'x';".to_string()
        }
        "leftrec_memoize_without_clone" => {
            derives = vec![];
            "@memoize @leftrec Bad = Bad 'x' | 'y';".to_string()
        }
        "nonascii_insensitive_char" => "Bad = i'é';".to_string(),
        "nonascii_insensitive_string" => "Bad = 'a' i\"xßy\";".to_string(),
        "codepoint_110000_braces" => "Bad = '\\u{110000}';".to_string(),
        "codepoint_surrogate_u4" => "Bad = 'a\\uD800';".to_string(),
        "codepoint_surrogate_braces" => "Bad = \"\\u{dfff}\";".to_string(),
        "codepoint_U00110000" => "Bad = '\\U00110000';".to_string(),
        "codepoint_surrogate_pair_u4" => "Bad = '\\uD83D\\uDE00';".to_string(),
        "codepoint_surrogate_pair_mixed" => "Bad = \"x\\u{d83d}\\U0000DE00y\";".to_string(),
        "codepoint_in_range" => "Bad = 'a'..'\\u{D800}';".to_string(),
        "codepoint_in_char_rule" => "@char Bad = 'a' | '\\uDABC';".to_string(),
        "include_missing" => "Bad = 'x' >Nope;".to_string(),
        "include_char_rule" => "@char BadC = 'a'..'z';\nBad = 'x' >BadC;".to_string(),
        "include_extern_rule" => "@extern(verif_core::hooks::ext_word) BadE;\nBad = 'x' [>BadE];".to_string(),
        "include_in_lookahead_with_field" => format!("BadI = y:{t};\nBad = !>BadI 'x';"),
        _ => panic!("unknown violation {which}"),
    };
    let text = if bad.is_empty() {
        text
    } else if src.chance(128) {
        format!("{text}{bad}\n")
    } else {
        format!("{bad}\n{text}")
    };
    Case { class: Class::Violator, sub: which.to_string(), text, derives, expect }
}

const TOKENS: &[&str] = &[
    "@export", "@string", "@char", "@no_skip_ws", "@position", "@memoize", "@leftrec", "@check(", "@extern(", "->", "::", ")", "(", "[", "]",
    "{", "}", "}+", "|", "!", "&", ">", "$", ";", "=", ":", "@:", "*", "..", "'", "\"", "i'", "\\", "\\u{", "\\x", "\\U00", "#", "\n", " ", "+",
    "'a'", "'a'..'z'", "A", "char", "Whitespace", "x:", "é", "🙂", "\0", "\u{feff}", "I'", "I\"", "\\q", "\\U", "\\X41", "@CHECK(", "@Export", "()", "(:)",
];

fn mutate_text(src: &mut Src, text: &str) -> String {
    let mut chars: Vec<char> = text.chars().collect();
    let n_edits = 1 + src.weighted(&[6, 3, 2, 1]);
    for _ in 0..n_edits {
        let n = chars.len();
        match src.pick(7) {
            6 if n > 0 => {
                // flip the case of one ASCII letter (keywords, markers and escape letters are case sensitive)
                let start = src.pick(n);
                if let Some(i) = (start..n).chain(0..start).find(|i| chars[*i].is_ascii_alphabetic()) {
                    let c = chars[i];
                    chars[i] = if c.is_ascii_uppercase() { c.to_ascii_lowercase() } else { c.to_ascii_uppercase() };
                }
            }
            0 if n > 0 => {
                let i = src.pick(n);
                chars.remove(i);
            }
            1 if n > 0 => {
                let i = src.pick(n);
                let len = src.range(1, 12).min(n - i);
                chars.drain(i..i + len);
            }
            2 => {
                let i = src.pick(n + 1);
                let tok: Vec<char> = src.choose(TOKENS).chars().collect();
                for (k, c) in tok.into_iter().enumerate() {
                    chars.insert(i + k, c);
                }
            }
            3 if n > 1 => {
                let i = src.pick(n - 1);
                chars.swap(i, i + 1);
            }
            4 if n > 0 => {
                let i = src.pick(n);
                chars.truncate(i);
            }
            _ if n > 0 => {
                let i = src.pick(n);
                let len = src.range(1, 20).min(n - i);
                let seg: Vec<char> = chars[i..i + len].to_vec();
                let j = src.pick(chars.len() + 1);
                for (k, c) in seg.into_iter().enumerate() {
                    chars.insert(j + k, c);
                }
            }
            _ => {}
        }
    }
    chars.into_iter().collect()
}

const BAD_IDENTS: &[&str] = &["1A", "9", "_", "self", "Self", "super", "crate", "__", "a1_", "fn", "type", "r", "state", "A_", "0x"];
const BAD_PATHS: &[&str] = &[
    "foo bar", "a::<b>", "a b::c", "crate::x y", "1::2", "self", "super::f", "crate", "a:: b", "Vec<u8>", "(x)", "a,b", "a..b", "é::ß", "a::1b",
    "crate::check", "x::y::z", "a&b", "'a", "\"q\"",
];

fn identifier_case(src: &mut Src) -> Case {
    let id = *src.choose(BAD_IDENTS);
    let path = *src.choose(BAD_PATHS);
    let sub;
    let text = match src.pick(9) {
        0 => {
            sub = "rule_name";
            format!("@export {id} = 'a';\n")
        }
        1 => {
            sub = "field_name";
            format!("@export A = {id}:B;\nB = 'b';\n")
        }
        2 => {
            sub = "field_type";
            format!("@export A = x:{id};\n{id} = 'b';\n")
        }
        3 => {
            sub = "check_path";
            format!("@check({path})\n@export A = 'a';\n")
        }
        4 => {
            sub = "extern_fn_path";
            format!("@export A = x:E;\n@extern({path}) E;\n")
        }
        5 => {
            sub = "extern_ret_path";
            format!("@export A = x:E;\n@extern(crate::f -> {path}) E;\n")
        }
        6 => {
            sub = "char_rule_name";
            format!("@export A = x:{id};\n@char {id} = 'a'..'z';\n")
        }
        7 => {
            sub = "char_check_path";
            format!("@export A = x:C;\n@check({path})\n@char C = 'a'..'z';\n")
        }
        _ => {
            sub = "include_name";
            format!("@export A = >{id};\n{id} = 'a';\n")
        }
    };
    Case { class: Class::Identifier, sub: sub.to_string(), text, derives: vec!["Debug".into(), "Clone".into()], expect: Expect::Any }
}

fn include_cycle_case(src: &mut Src) -> Case {
    let k = src.pick(6);
    let text = match k {
        0 => "@export A = >A;\n".to_string(),
        1 => "@export A = >B;\nB = >A;\n".to_string(),
        2 => "@export A = 'x' >B;\nB = 'y' [>C];\nC = {>A};\n".to_string(),
        3 => "@export A = f:X | >A;\nX = 'x';\n".to_string(),
        4 => "@string S = >S 'a';\n@export A = s:S;\n".to_string(),
        _ => "@export A = !>B 'a';\nB = &>B;\n".to_string(),
    };
    Case { class: Class::IncludeCycle, sub: format!("cycle{k}"), text, derives: vec!["Debug".into(), "Clone".into()], expect: Expect::Err }
}

pub fn nesting_text(kind: usize, depth: usize) -> String {
    let (open, close) = match kind % 6 {
        0 => ("(", ")"),
        1 => ("[", "]"),
        2 => ("{", "}"),
        3 => ("!(", ")"),
        4 => ("&[", "]"),
        _ => ("('a' | (", "))"),
    };
    let mut s = String::from("@export A = ");
    for _ in 0..depth {
        s.push_str(open);
    }
    s.push_str("'a'");
    for _ in 0..depth {
        s.push_str(close);
    }
    s.push_str(";\n");
    s
}

fn arbitrary_text(src: &mut Src) -> String {
    let n = src.range(0, 60);
    let mut s = String::new();
    for _ in 0..n {
        match src.pick(4) {
            0 => s.push_str(*src.choose(TOKENS)),
            1 => s.push((0x20 + src.pick(0x5f)) as u8 as char),
            2 => {
                if let Some(c) = char::from_u32(src.u32() % 0x11_0000) {
                    s.push(c)
                }
            }
            _ => s.push(*src.choose(&['\n', ' ', ';', '=', '\'', '"', '\\'])),
        }
    }
    s
}

pub const MAX_NESTING: usize = 64;
pub const MAX_CHOICE_NESTING: usize = 48;

pub fn case(bytes: &[u8]) -> Case {
    let mut src = Src::new(bytes);
    let default_derives = vec!["Debug".to_string(), "Clone".to_string()];
    let derive_sets: [&[&str]; 8] = [
        &["Debug", "Clone"],
        &["Debug", "Clone", "PartialEq", "Eq"],
        &["Clone"],
        &[],
        &["Debug"],
        // names that are not identifiers: an error value is fine, a panic is not
        &["Debug", "Clone", "serde::Serialize"],
        &["1x", "Clone"],
        &["Clone", ""],
    ];
    match src.weighted(&[3, 4, 5, 6, 3, 1, 1, 3]) {
        0 => {
            let g = valid_model(&mut src);
            Case { class: Class::Valid, sub: String::new(), text: printer::print_canonical(&g), derives: default_derives, expect: Expect::Code }
        }
        1 => {
            let g = valid_model(&mut src);
            let (text, _) = printer::print_with(&g, &mut src, true);
            let ds = derive_sets[src.pick(derive_sets.len())];
            let has_memo = g.normals().any(|n| n.memoize() || n.leftrec());
            let valid_names = ds.iter().all(|d| !d.is_empty() && d.chars().all(|c| c.is_ascii_alphanumeric() || c == '_') && !d.chars().next().unwrap().is_ascii_digit());
            let expect = if valid_names && (ds.contains(&"Clone") || !has_memo) { Expect::Code } else { Expect::Any };
            Case { class: Class::ValidLayout, sub: format!("{:?}", ds), text, derives: ds.iter().map(|s| s.to_string()).collect(), expect }
        }
        2 => {
            let which = *src.choose(VIOLATIONS);
            violator(&mut src, which)
        }
        3 => {
            let g = valid_model(&mut src);
            let base = if src.chance(100) { printer::print_with(&g, &mut src, true).0 } else { printer::print_canonical(&g) };
            let text = mutate_text(&mut src, &base);
            Case { class: Class::Mutated, sub: String::new(), text, derives: default_derives, expect: Expect::Any }
        }
        4 => identifier_case(&mut src),
        5 => include_cycle_case(&mut src),
        6 => {
            let k = src.pick(6);
            // kind 5 (choices nested in groups) is capped lower: code generation time doubles per level
            // (listed finding C15/exponential-nested-choice), see MAX_CHOICE_NESTING
            let d = if k == 5 { src.range(1, MAX_CHOICE_NESTING) } else { src.range(1, MAX_NESTING) };
            Case { class: Class::Nesting, sub: format!("kind{k} depth{d}"), text: nesting_text(k, d), derives: default_derives, expect: Expect::Code }
        }
        _ => Case { class: Class::Arbitrary, sub: String::new(), text: arbitrary_text(&mut src), derives: default_derives, expect: Expect::Any },
    }
}
