//! Small utilities: byte-driven choice source, FNV hasher, JSON helpers.
use std::hash::Hasher;

/// A deterministic stream of choices decoded from bytes ("bytes -> structure").
/// When the bytes run out every choice returns 0, i.e. the first / smallest option, so
/// shrinking the byte string shrinks the structure.
#[derive(Debug, Clone)]
pub struct Src<'a> {
    data: &'a [u8],
    pos: usize,
}

impl<'a> Src<'a> {
    pub fn new(data: &'a [u8]) -> Self {
        Src { data, pos: 0 }
    }
    pub fn empty() -> Src<'static> {
        Src { data: &[], pos: 0 }
    }
    pub fn exhausted(&self) -> bool {
        self.pos >= self.data.len()
    }
    pub fn consumed(&self) -> usize {
        self.pos
    }
    pub fn byte(&mut self) -> u8 {
        if self.pos < self.data.len() {
            let b = self.data[self.pos];
            self.pos += 1;
            b
        } else {
            0
        }
    }
    pub fn u16(&mut self) -> u16 {
        let a = self.byte() as u16;
        let b = self.byte() as u16;
        a | (b << 8)
    }
    pub fn u32(&mut self) -> u32 {
        let a = self.u16() as u32;
        let b = self.u16() as u32;
        a | (b << 16)
    }
    /// value in 0..n (n >= 1); monotone in the byte value (good for shrinking)
    pub fn pick(&mut self, n: usize) -> usize {
        if n <= 1 {
            return 0;
        }
        if n <= 256 {
            (self.byte() as usize * n) >> 8
        } else {
            (self.u16() as usize * n) >> 16
        }
    }
    /// value in lo..=hi
    pub fn range(&mut self, lo: usize, hi: usize) -> usize {
        lo + self.pick(hi - lo + 1)
    }
    /// true with probability num/256 (false when bytes ran out)
    pub fn chance(&mut self, num: u32) -> bool {
        (self.byte() as u32) >= 256 - num.min(256)
    }
    /// weighted choice; returns index. weights[0] should be the "smallest" option
    pub fn weighted(&mut self, weights: &[u32]) -> usize {
        let total: u32 = weights.iter().sum();
        if total == 0 {
            return 0;
        }
        let mut x = (self.u16() as u64 * total as u64 >> 16) as u32;
        for (i, w) in weights.iter().enumerate() {
            if x < *w {
                return i;
            }
            x -= *w;
        }
        weights.len() - 1
    }
    pub fn choose<'b, T>(&mut self, items: &'b [T]) -> &'b T {
        &items[self.pick(items.len())]
    }
}

#[derive(Clone)]
pub struct Fnv(u64);
impl Default for Fnv {
    fn default() -> Self {
        Fnv(0xcbf29ce484222325)
    }
}
impl Hasher for Fnv {
    fn finish(&self) -> u64 {
        self.0
    }
    fn write(&mut self, bytes: &[u8]) {
        for b in bytes {
            self.0 ^= *b as u64;
            self.0 = self.0.wrapping_mul(0x100000001b3);
        }
    }
}

pub fn fnv64(bytes: &[u8]) -> u64 {
    let mut h = Fnv::default();
    h.write(bytes);
    h.finish()
}

pub fn hash_parts(parts: &[&[u8]]) -> u64 {
    let mut h = Fnv::default();
    for p in parts {
        h.write(p);
        h.write(&[0xff]);
    }
    h.finish()
}

/// splitmix64: derive independent seeds from (seed, stream) pairs. Not an RNG of our own for
/// test decisions: it only derives the seed handed to proptest's TestRng.
pub fn mix(mut x: u64) -> u64 {
    x = x.wrapping_add(0x9E3779B97F4A7C15);
    x = (x ^ (x >> 30)).wrapping_mul(0xBF58476D1CE4E5B9);
    x = (x ^ (x >> 27)).wrapping_mul(0x94D049BB133111EB);
    x ^ (x >> 31)
}

pub fn seed_bytes(seed: u64, stream: u64, index: u64) -> [u8; 32] {
    let mut out = [0u8; 32];
    let mut s = mix(seed ^ mix(stream ^ mix(index)));
    for i in 0..4 {
        s = mix(s);
        out[i * 8..i * 8 + 8].copy_from_slice(&s.to_le_bytes());
    }
    out
}

/// `catch_unwind` that does not demand `UnwindSafe` from the tested crate's types (a cache in a `RefCell` inside the
/// generator's settings is a legitimate change and must not break the harness build)
pub fn catch<F: FnOnce() -> R, R>(f: F) -> std::thread::Result<R> {
    std::panic::catch_unwind(std::panic::AssertUnwindSafe(f))
}
