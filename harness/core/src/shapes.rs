//! Static oracle: the documented mapping grammar -> Rust type shapes (doc/syntax.md
//! §Fields, §Override, §Boxing, §Directives). Written from the documentation; never looks at
//! peginator's code or output.
use crate::model::*;
use std::collections::BTreeMap;

#[derive(Debug, Clone, Copy, PartialEq, Eq, serde::Serialize, serde::Deserialize)]
pub enum Arity {
    One,
    Optional,
    Multiple,
}

#[derive(Debug, Clone, PartialEq, Eq, serde::Serialize, serde::Deserialize)]
pub struct Field {
    pub name: String,
    /// type name -> boxed (BTreeMap: variants are sorted byte-wise by type name)
    pub types: BTreeMap<String, bool>,
    pub arity: Arity,
}

#[derive(Debug, Clone, PartialEq, Eq, serde::Serialize, serde::Deserialize)]
pub enum Kind {
    /// `@char` rule: `char`
    Char,
    /// `@extern`: the declared type or String
    Extern { ret: Option<String> },
    /// `@string`: `String`
    Str,
    /// `@string @position`: struct { string, position }
    StrPos,
    /// single-type override: alias to wrap(arity, box?(T))
    Alias { typ: String, boxed: bool, arity: Arity },
    /// multi-type override: enum with sorted variants
    Enum { variants: BTreeMap<String, bool>, position: bool },
    /// struct with fields (unit struct if no fields and no position)
    Struct { fields: Vec<Field>, position: bool },
}

#[derive(Debug, Clone, Copy, PartialEq, Eq, Hash, PartialOrd, Ord, serde::Serialize, serde::Deserialize)]
pub enum ShapeError {
    FieldInLookahead,
    MixedOverride,
    EnumOverrideNotOnce,
    ExportOnSimpleOverride,
    PositionOnSimpleOverride,
    ExportString,
    SkippingWhitespace,
    IncludeMissing,
    IncludeCycle,
}

pub const OVERRIDE: &str = "_override";

pub fn fields_of(g: &Grammar, e: &Expr, depth: usize) -> Result<Vec<Field>, ShapeError> {
    if depth > 64 {
        return Err(ShapeError::IncludeCycle);
    }
    Ok(match e {
        Expr::Ref { field, boxed, typ } => match field {
            FieldName::None => vec![],
            FieldName::Named(n) => vec![Field {
                name: n.clone(),
                types: [(typ.clone(), *boxed)].into_iter().collect(),
                arity: Arity::One,
            }],
            FieldName::Override => vec![Field {
                name: OVERRIDE.into(),
                types: [(typ.clone(), *boxed)].into_iter().collect(),
                arity: Arity::One,
            }],
        },
        Expr::Lit { .. } | Expr::Range(..) | Expr::Eoi => vec![],
        Expr::Not(b) | Expr::And(b) => {
            if !fields_of(g, b, depth)?.is_empty() {
                return Err(ShapeError::FieldInLookahead);
            }
            vec![]
        }
        Expr::Group(b) => fields_of(g, b, depth)?,
        Expr::Include(r) => match g.normal(r) {
            Some(n) => fields_of(g, &n.body, depth + 1)?,
            None => return Err(ShapeError::IncludeMissing),
        },
        Expr::Opt(b) => {
            let mut f = fields_of(g, b, depth)?;
            for x in &mut f {
                if x.arity == Arity::One {
                    x.arity = Arity::Optional;
                }
            }
            f
        }
        Expr::Star(b) | Expr::Plus(b) => {
            let mut f = fields_of(g, b, depth)?;
            for x in &mut f {
                x.arity = Arity::Multiple;
            }
            f
        }
        Expr::Seq(parts) => {
            let mut all: Vec<Field> = vec![];
            for p in parts {
                for nf in fields_of(g, p, depth)? {
                    if let Some(o) = all.iter_mut().find(|f| f.name == nf.name) {
                        o.arity = Arity::Multiple;
                        for (t, b) in nf.types {
                            let e = o.types.entry(t).or_insert(b);
                            *e = *e || b;
                        }
                    } else {
                        all.push(nf);
                    }
                }
            }
            all
        }
        Expr::Choice(arms) => {
            // union in first-appearance order; per name over the arms:
            // Multiple if Multiple in any arm; else One if present and One in every arm; else Optional
            let per_arm: Vec<Vec<Field>> =
                arms.iter().map(|a| fields_of(g, a, depth)).collect::<Result<_, _>>()?;
            let mut all: Vec<Field> = vec![];
            for arm in &per_arm {
                for f in arm {
                    if !all.iter().any(|x| x.name == f.name) {
                        all.push(Field { name: f.name.clone(), types: BTreeMap::new(), arity: Arity::One });
                    }
                }
            }
            for f in &mut all {
                let mut any_multiple = false;
                let mut all_one = true;
                for arm in &per_arm {
                    match arm.iter().find(|x| x.name == f.name) {
                        None => all_one = false,
                        Some(x) => {
                            match x.arity {
                                Arity::One => {}
                                Arity::Optional => all_one = false,
                                Arity::Multiple => {
                                    any_multiple = true;
                                    all_one = false
                                }
                            }
                            for (t, b) in &x.types {
                                let e = f.types.entry(t.clone()).or_insert(*b);
                                *e = *e || *b;
                            }
                        }
                    }
                }
                f.arity = if any_multiple {
                    Arity::Multiple
                } else if all_one {
                    Arity::One
                } else {
                    Arity::Optional
                };
            }
            all
        }
    })
}

pub fn kind_of(g: &Grammar, r: &RuleDef) -> Result<Kind, ShapeError> {
    match r {
        RuleDef::CharClass(_) => Ok(Kind::Char),
        RuleDef::Extern(e) => Ok(Kind::Extern { ret: e.ret.as_ref().map(|p| p.join("::")) }),
        RuleDef::Normal(n) => {
            let fields = fields_of(g, &n.body, 0)?;
            if n.name == "Whitespace" && !n.no_skip_ws() {
                return Err(ShapeError::SkippingWhitespace);
            }
            if n.string() {
                if n.export() {
                    return Err(ShapeError::ExportString);
                }
                return Ok(if n.position() { Kind::StrPos } else { Kind::Str });
            }
            let has_override = fields.iter().any(|f| f.name == OVERRIDE);
            if has_override {
                if fields.len() != 1 {
                    return Err(ShapeError::MixedOverride);
                }
                let f = &fields[0];
                if f.types.len() == 1 {
                    if n.export() {
                        return Err(ShapeError::ExportOnSimpleOverride);
                    }
                    if n.position() {
                        return Err(ShapeError::PositionOnSimpleOverride);
                    }
                    let (t, b) = f.types.iter().next().unwrap();
                    Ok(Kind::Alias { typ: t.clone(), boxed: *b, arity: f.arity })
                } else {
                    if f.arity != Arity::One {
                        return Err(ShapeError::EnumOverrideNotOnce);
                    }
                    Ok(Kind::Enum { variants: f.types.clone(), position: n.position() })
                }
            } else {
                Ok(Kind::Struct { fields, position: n.position() })
            }
        }
    }
}

#[derive(Debug, Clone, serde::Serialize, serde::Deserialize)]
pub struct Shapes {
    pub kinds: BTreeMap<String, Kind>,
}

pub fn shapes(g: &Grammar) -> Result<Shapes, (String, ShapeError)> {
    let mut kinds = BTreeMap::new();
    for r in &g.rules {
        kinds.insert(r.name().to_string(), kind_of(g, r).map_err(|e| (r.name().to_string(), e))?);
    }
    Ok(Shapes { kinds })
}

/// Always-legal spelling of an identifier in Rust source (raw identifier for everything that can be raw).
pub fn rs_ident(name: &str) -> String {
    match name {
        "self" | "Self" | "super" | "crate" | "_" => name.to_string(),
        _ => format!("r#{name}"),
    }
}

fn rs_type_name(name: &str) -> String {
    if name == "char" {
        "char".into()
    } else {
        rs_ident(name)
    }
}

fn wrap(arity: Arity, inner: String) -> String {
    match arity {
        Arity::One => inner,
        Arity::Optional => format!("Option<{inner}>"),
        Arity::Multiple => format!("Vec<{inner}>"),
    }
}

/// The Rust type text of a field of rule `rule` (paths relative to the grammar module).
pub fn field_type(rule: &str, f: &Field) -> String {
    let inner = if f.types.len() > 1 {
        rs_ident(&format!("{rule}_{}", f.name))
    } else {
        let (t, b) = f.types.iter().next().unwrap();
        if *b {
            format!("Box<{}>", rs_type_name(t))
        } else {
            rs_type_name(t)
        }
    };
    wrap(f.arity, inner)
}

impl Shapes {
    pub fn kind(&self, rule: &str) -> Option<&Kind> {
        self.kinds.get(rule)
    }

    /// The exact Rust type a rule name denotes (after aliases), for assertions.
    pub fn alias_type(&self, k: &Kind) -> Option<String> {
        match k {
            Kind::Char => Some("char".into()),
            Kind::Str => Some("String".into()),
            Kind::Extern { ret } => Some(ret.clone().unwrap_or_else(|| "String".into())),
            Kind::Alias { typ, boxed, arity } => {
                let inner = if *boxed { format!("Box<{}>", rs_type_name(typ)) } else { rs_type_name(typ) };
                Some(wrap(*arity, inner))
            }
            _ => None,
        }
    }

    /// Does a value of rule `from` contain (by plain/Option containment, through aliases, not
    /// through Box or Vec) a value of rule `target`? Used to check that type cycles are broken.
    pub fn contains_inline(&self, from: &str, target: &str, seen: &mut Vec<String>) -> bool {
        if seen.iter().any(|s| s == from) {
            return false;
        }
        seen.push(from.to_string());
        let r = match self.kinds.get(from) {
            None => false,
            Some(Kind::Char) | Some(Kind::Str) | Some(Kind::StrPos) | Some(Kind::Extern { .. }) => false,
            Some(Kind::Alias { typ, boxed, arity }) => {
                if *boxed || *arity == Arity::Multiple {
                    false
                } else {
                    typ == target || self.contains_inline(typ, target, seen)
                }
            }
            Some(Kind::Enum { variants, .. }) => variants
                .iter()
                .any(|(t, b)| !*b && (t == target || self.contains_inline(t, target, seen))),
            Some(Kind::Struct { fields, .. }) => fields.iter().any(|f| {
                f.arity != Arity::Multiple
                    && f.types.iter().any(|(t, b)| !*b && (t == target || self.contains_inline(t, target, seen)))
            }),
        };
        seen.pop();
        r
    }

    pub fn has_infinite_type(&self) -> Option<String> {
        for name in self.kinds.keys() {
            if self.contains_inline(name, name, &mut vec![]) {
                return Some(name.clone());
            }
        }
        None
    }

    /// Does the type of the rule implement PegPosition (needed for enum overrides with @position)?
    pub fn has_position_impl(&self, rule: &str) -> bool {
        self.has_position_impl_d(rule, 0)
    }
    fn has_position_impl_d(&self, rule: &str, depth: usize) -> bool {
        if depth > self.kinds.len() + 1 {
            return false;
        }
        match self.kinds.get(rule) {
            Some(Kind::StrPos) => true,
            Some(Kind::Struct { position, .. }) => *position,
            Some(Kind::Enum { position, .. }) => *position,
            Some(Kind::Alias { typ, boxed: false, arity: Arity::One }) => self.has_position_impl_d(typ, depth + 1),
            _ => false,
        }
    }
}
