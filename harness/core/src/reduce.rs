//! One-step reductions of a grammar model (batch delta-debugging of failing grammars, DESIGN.md §2.2).
use crate::gen;
use crate::model::*;

fn count_nodes(e: &Expr) -> usize {
    e.size()
}

/// all variants of `e` with exactly one node reduced
fn expr_variants(e: &Expr) -> Vec<Expr> {
    let mut out = vec![];
    // reductions at this node
    match e {
        Expr::Choice(arms) => {
            for a in arms {
                out.push(a.clone());
            }
            if arms.len() > 2 {
                for i in 0..arms.len() {
                    let mut v = arms.clone();
                    v.remove(i);
                    out.push(Expr::Choice(v));
                }
            }
        }
        Expr::Seq(parts) => {
            for i in 0..parts.len() {
                let mut v = parts.clone();
                v.remove(i);
                out.push(Expr::Seq(v));
            }
        }
        Expr::Group(b) | Expr::Opt(b) | Expr::Star(b) | Expr::Plus(b) => out.push((**b).clone()),
        Expr::Not(_) | Expr::And(_) => out.push(Expr::Seq(vec![])),
        Expr::Lit { s, insensitive } if s.chars().count() > 1 => {
            out.push(Expr::Lit { s: s.chars().take(1).collect(), insensitive: *insensitive });
        }
        Expr::Lit { s, insensitive: true } => out.push(Expr::Lit { s: s.clone(), insensitive: false }),
        Expr::Ref { field, boxed, typ } => {
            if *boxed {
                out.push(Expr::Ref { field: field.clone(), boxed: false, typ: typ.clone() });
            }
            if *field != FieldName::None {
                out.push(Expr::Ref { field: FieldName::None, boxed: false, typ: typ.clone() });
            }
            if typ != "char" {
                out.push(Expr::Ref { field: field.clone(), boxed: false, typ: "char".into() });
            }
        }
        Expr::Include(_) => out.push(Expr::Seq(vec![])),
        _ => {}
    }
    // reductions inside children
    match e {
        Expr::Choice(v) | Expr::Seq(v) => {
            for i in 0..v.len() {
                for c in expr_variants(&v[i]) {
                    let mut w = v.clone();
                    w[i] = c;
                    out.push(if matches!(e, Expr::Choice(_)) { Expr::Choice(w) } else { Expr::Seq(w) });
                }
            }
        }
        Expr::Group(b) => out.extend(expr_variants(b).into_iter().map(|c| Expr::Group(Box::new(c)))),
        Expr::Opt(b) => out.extend(expr_variants(b).into_iter().map(|c| Expr::Opt(Box::new(c)))),
        Expr::Star(b) => out.extend(expr_variants(b).into_iter().map(|c| Expr::Star(Box::new(c)))),
        Expr::Plus(b) => out.extend(expr_variants(b).into_iter().map(|c| Expr::Plus(Box::new(c)))),
        Expr::Not(b) => out.extend(expr_variants(b).into_iter().map(|c| Expr::Not(Box::new(c)))),
        Expr::And(b) => out.extend(expr_variants(b).into_iter().map(|c| Expr::And(Box::new(c)))),
        _ => {}
    }
    out
}

pub fn size(g: &Grammar) -> usize {
    g.rules
        .iter()
        .map(|r| match r {
            RuleDef::Normal(n) => 2 + n.directives.len() + count_nodes(&n.body),
            RuleDef::CharClass(c) => 2 + c.parts.len() + c.checks_before.len() + c.checks_after.len(),
            RuleDef::Extern(_) => 2,
        })
        .sum()
}

fn drop_unreachable(g: &Grammar, root: &str) -> Grammar {
    let keep = reachable_rules(g, root);
    Grammar { rules: g.rules.iter().filter(|r| keep.contains(r.name())).cloned().collect() }
}

/// Well-formed one-step reductions of `g` that still define `root`, smallest first.
pub fn candidates(g: &Grammar, root: &str, limit: usize) -> Vec<Grammar> {
    let mut out: Vec<Grammar> = vec![];
    let base = drop_unreachable(g, root);
    if base.rules.len() < g.rules.len() {
        out.push(base.clone());
    }
    for (ri, r) in base.rules.iter().enumerate() {
        match r {
            RuleDef::Normal(n) => {
                for v in expr_variants(&n.body) {
                    let mut c = base.clone();
                    if let RuleDef::Normal(m) = &mut c.rules[ri] {
                        m.body = v;
                    }
                    out.push(c);
                }
                for (di, d) in n.directives.iter().enumerate() {
                    if *d == Directive::Export && n.name == root {
                        continue;
                    }
                    let mut c = base.clone();
                    if let RuleDef::Normal(m) = &mut c.rules[ri] {
                        m.directives.remove(di);
                    }
                    out.push(c);
                }
            }
            RuleDef::CharClass(cr) => {
                if cr.parts.len() > 1 {
                    for pi in 0..cr.parts.len() {
                        let mut c = base.clone();
                        if let RuleDef::CharClass(m) = &mut c.rules[ri] {
                            m.parts.remove(pi);
                        }
                        out.push(c);
                    }
                }
                if !cr.checks_before.is_empty() || !cr.checks_after.is_empty() {
                    let mut c = base.clone();
                    if let RuleDef::CharClass(m) = &mut c.rules[ri] {
                        m.checks_before.clear();
                        m.checks_after.clear();
                    }
                    out.push(c);
                }
            }
            RuleDef::Extern(_) => {}
        }
    }
    let mut good: Vec<Grammar> = vec![];
    let mut seen = std::collections::BTreeSet::new();
    for c in out {
        let c = drop_unreachable(&c.normalize(), root);
        if c.find(root).is_none() {
            continue;
        }
        if let Ok(c) = gen::finish(c) {
            if size(&c) < size(g) && seen.insert(c.hash64()) {
                good.push(c);
            }
        }
    }
    good.sort_by_key(size);
    good.truncate(limit);
    good
}
