//! model -> grammar text, with a layout driven by a choice source.
//! With an exhausted/empty source the layout is canonical.
use crate::model::*;
use crate::util::Src;

#[derive(Debug, Default, Clone)]
pub struct LayoutStats {
    pub comments: usize,
    pub comments_in_expr: usize,
    pub comments_with_lone_cr: usize,
    pub nonraw_escapes: usize,
    pub escape_kinds: [usize; 7],
    pub extra_parens: usize,
    pub dquotes: usize,
    pub ws_variants: usize,
}

pub struct Printer<'a, 'b> {
    pub src: &'b mut Src<'a>,
    pub out: String,
    pub stats: LayoutStats,
    /// allow layout variation at all (false: canonical regardless of src)
    pub vary: bool,
    /// allow redundant parentheses
    pub parens: bool,
    in_expr: bool,
    /// comment bodies may contain carriage returns (off for the batch route: its replay records hold the model only and
    /// rely on the layout staying the same function of the model)
    pub cr_comments: bool,
    /// one escape form for every character of the literal being printed (where that form can express the character)
    uniform_escape: Option<u8>,
}

/// all parts are characters / ranges up to U+00FF and at least one is not ASCII
pub fn latin1_class(c: &CharRule) -> bool {
    let mut non_ascii = false;
    for p in &c.parts {
        match p {
            CharPart::Char(x) => {
                if *x as u32 > 0xff {
                    return false;
                }
                non_ascii |= !x.is_ascii();
            }
            CharPart::Range(a, b) => {
                if *a as u32 > 0xff || *b as u32 > 0xff {
                    return false;
                }
                non_ascii |= !a.is_ascii() || !b.is_ascii();
            }
            CharPart::Class(_) => return false,
        }
    }
    non_ascii
}

pub fn print_canonical(g: &Grammar) -> String {
    let mut s = Src::empty();
    let mut p = Printer::new(&mut s, false, false);
    p.grammar(g);
    p.out
}

/// the layout function as it was when the batch replay records were written (no carriage returns inside comments)
pub fn print_with_stable(g: &Grammar, src: &mut Src, parens: bool) -> (String, LayoutStats) {
    let mut p = Printer::new(src, true, parens);
    p.cr_comments = false;
    p.grammar(g);
    (p.out, p.stats)
}

pub fn print_with(g: &Grammar, src: &mut Src, parens: bool) -> (String, LayoutStats) {
    let mut p = Printer::new(src, true, parens);
    p.grammar(g);
    (p.out, p.stats)
}

// a carriage return that is not followed by a line feed does not end a comment (`Comment = '#' {!'\n' char} '\n'`)
const COMMENT_BODIES: &[&str] = &[
    "", " c", " 'x' | ; = {", " @export A = 'a';", "#", " é☃", "\t\"", " \\",
    " old:\rY = 'b';", "\r", " it's\r \"q", " x\r", "\r\r@export\r",
];

impl<'a, 'b> Printer<'a, 'b> {
    pub fn new(src: &'b mut Src<'a>, vary: bool, parens: bool) -> Self {
        Printer { src, out: String::new(), stats: Default::default(), vary, parens, in_expr: false, cr_comments: true, uniform_escape: None }
    }

    /// optional whitespace between two tokens; `need` = at least one separator is required
    fn gap(&mut self, need: bool) {
        if !self.vary || self.src.exhausted() {
            if need {
                self.out.push(' ');
            }
            return;
        }
        let k = self.src.weighted(&[10, 4, 2, 2, 1, 1, 3]);
        match k {
            0 => {
                if need {
                    self.out.push(' ')
                }
            }
            1 => self.out.push(' '),
            2 => self.out.push('\n'),
            3 => self.out.push_str("\t "),
            4 => self.out.push_str("\r\n"),
            5 => self.out.push_str(" \x0C "),
            _ => {
                // comment (must be terminated by a newline)
                let body = *self.src.choose(if self.cr_comments { COMMENT_BODIES } else { &COMMENT_BODIES[..8] });
                if need || self.src.chance(128) {
                    self.out.push(' ');
                }
                self.out.push('#');
                self.out.push_str(body);
                self.out.push('\n');
                self.stats.comments += 1;
                if body.contains('\r') {
                    self.stats.comments_with_lone_cr += 1;
                }
                if self.in_expr {
                    self.stats.comments_in_expr += 1;
                }
            }
        }
        if k != 0 {
            self.stats.ws_variants += 1;
        }
    }

    pub fn grammar(&mut self, g: &Grammar) {
        self.gap(false);
        for r in &g.rules {
            match r {
                RuleDef::Normal(n) => self.normal(n),
                RuleDef::CharClass(c) => self.charrule(c),
                RuleDef::Extern(e) => self.externrule(e),
            }
            self.gap(false);
            self.out.push(';');
            if !self.vary || self.src.exhausted() {
                self.out.push('\n');
            } else {
                self.gap(false);
            }
        }
    }

    fn path(&mut self, p: &[String]) {
        for (i, part) in p.iter().enumerate() {
            if i > 0 {
                self.gap(false);
                self.out.push_str("::");
                self.gap(false);
            }
            self.out.push_str(part);
        }
    }

    fn check(&mut self, p: &[String]) {
        self.out.push_str("@check");
        self.gap(false);
        self.out.push('(');
        self.gap(false);
        self.path(p);
        self.gap(false);
        self.out.push(')');
    }

    fn normal(&mut self, n: &NormalRule) {
        for d in &n.directives {
            match d {
                Directive::Export => self.out.push_str("@export"),
                Directive::NoSkipWs => self.out.push_str("@no_skip_ws"),
                Directive::Position => self.out.push_str("@position"),
                Directive::String => self.out.push_str("@string"),
                Directive::Memoize => self.out.push_str("@memoize"),
                Directive::Leftrec => self.out.push_str("@leftrec"),
                Directive::Check(p) => self.check(p),
            }
            self.gap(true);
        }
        self.out.push_str(&n.name);
        self.gap(true);
        self.out.push('=');
        self.in_expr = true;
        self.choice_level(&n.body, true);
        self.in_expr = false;
    }

    fn charrule(&mut self, c: &CharRule) {
        for p in &c.checks_before {
            self.check(p);
            self.gap(true);
        }
        self.out.push_str("@char");
        self.gap(true);
        for p in &c.checks_after {
            self.check(p);
            self.gap(true);
        }
        self.out.push_str(&c.name);
        self.gap(true);
        self.out.push('=');
        self.in_expr = true;
        // sometimes every character of the class in one escape form (a class spelled entirely with \xNN, \uNNNN ...)
        let latin1_only = latin1_class(c);
        if self.vary && !self.src.exhausted() && latin1_only && self.src.chance(150) {
            // a class over U+0080..U+00FF spelled with \xNN throughout (NN is a code point, not a byte)
            self.uniform_escape = Some(2);
        } else if self.vary && !self.src.exhausted() && self.src.chance(60) {
            self.uniform_escape = Some(*self.src.choose(&[2u8, 2, 2, 3, 5]));
        }
        for (i, p) in c.parts.iter().enumerate() {
            if i > 0 {
                self.gap(true);
                self.out.push('|');
            }
            self.gap(true);
            match p {
                CharPart::Char(ch) => self.range_part(*ch),
                CharPart::Range(a, b) => {
                    self.range_part(*a);
                    self.gap(false);
                    self.out.push_str("..");
                    self.gap(false);
                    self.range_part(*b);
                }
                CharPart::Class(n) => self.out.push_str(n),
            }
        }
        self.uniform_escape = None;
        self.in_expr = false;
    }

    fn externrule(&mut self, e: &ExternRule) {
        self.out.push_str("@extern");
        self.gap(false);
        self.out.push('(');
        self.gap(false);
        self.path(&e.function);
        if let Some(r) = &e.ret {
            self.gap(false);
            self.out.push_str("->");
            self.gap(false);
            self.path(r);
        }
        self.gap(false);
        self.out.push(')');
        self.gap(true);
        self.out.push_str(&e.name);
    }

    /// print an expression at choice level (may be Choice, Seq or delimited).
    /// `lead`: emit a separating gap before the first token
    fn choice_level(&mut self, e: &Expr, lead: bool) {
        match e {
            Expr::Choice(arms) => {
                for (i, a) in arms.iter().enumerate() {
                    if i > 0 {
                        self.gap(true);
                        self.out.push('|');
                    }
                    self.seq_level(a, lead || i > 0);
                }
            }
            _ => self.seq_level(e, lead),
        }
    }

    fn seq_level(&mut self, e: &Expr, lead: bool) {
        match e {
            Expr::Seq(parts) => {
                for (i, p) in parts.iter().enumerate() {
                    if lead || i > 0 {
                        self.gap(true);
                    }
                    self.delimited(p);
                }
            }
            Expr::Choice(_) => {
                // not in normal form; protect with parentheses
                if lead {
                    self.gap(true);
                }
                self.out.push('(');
                self.choice_level(e, false);
                self.gap(false);
                self.out.push(')');
            }
            _ => {
                if lead {
                    self.gap(true);
                }
                self.delimited(e);
            }
        }
    }

    fn delimited(&mut self, e: &Expr) {
        // redundant parentheses around a delimited expression (changes the AST by a Group,
        // which is semantically transparent; only used where the comparison strips groups)
        if self.parens && self.vary && !self.src.exhausted() && self.src.chance(16) {
            self.stats.extra_parens += 1;
            self.out.push('(');
            self.gap(false);
            self.delimited_inner(e);
            self.gap(false);
            self.out.push(')');
            return;
        }
        self.delimited_inner(e)
    }

    fn delimited_inner(&mut self, e: &Expr) {
        match e {
            Expr::Choice(_) | Expr::Seq(_) => {
                self.out.push('(');
                self.choice_level(e, false);
                self.gap(false);
                self.out.push(')');
            }
            Expr::Group(b) => {
                self.out.push('(');
                self.choice_level(b, false);
                self.gap(false);
                self.out.push(')');
            }
            Expr::Opt(b) => {
                self.out.push('[');
                self.choice_level(b, false);
                self.gap(false);
                self.out.push(']');
            }
            Expr::Star(b) => {
                self.out.push('{');
                self.choice_level(b, false);
                self.gap(false);
                self.out.push('}');
            }
            Expr::Plus(b) => {
                self.out.push('{');
                self.choice_level(b, false);
                self.gap(false);
                self.out.push('}');
                self.gap(false);
                self.out.push('+');
            }
            Expr::Not(b) => {
                self.out.push('!');
                self.gap(false);
                self.delimited(b);
            }
            Expr::And(b) => {
                self.out.push('&');
                self.gap(false);
                self.delimited(b);
            }
            Expr::Lit { s, insensitive } => self.literal(s, *insensitive),
            Expr::Range(a, b) => {
                self.range_part(*a);
                self.gap(false);
                self.out.push_str("..");
                self.gap(false);
                self.range_part(*b);
            }
            Expr::Eoi => self.out.push('$'),
            Expr::Include(r) => {
                self.out.push('>');
                self.gap(false);
                self.out.push_str(r);
            }
            Expr::Ref { field, boxed, typ } => {
                match field {
                    FieldName::None => {}
                    FieldName::Named(n) => {
                        self.out.push_str(n);
                        self.gap(false);
                        self.out.push(':');
                        self.gap(false);
                        if *boxed {
                            self.out.push('*');
                            self.gap(false);
                        }
                    }
                    FieldName::Override => {
                        self.out.push('@');
                        self.gap(false);
                        self.out.push(':');
                        self.gap(false);
                        if *boxed {
                            self.out.push('*');
                            self.gap(false);
                        }
                    }
                }
                self.out.push_str(typ);
            }
        }
    }

    fn literal(&mut self, s: &str, insensitive: bool) {
        if insensitive {
            self.out.push('i');
        }
        let dq = if self.vary && !self.src.exhausted() { self.src.chance(100) } else { false };
        let q = if dq { '"' } else { '\'' };
        if dq {
            self.stats.dquotes += 1;
        }
        self.out.push(q);
        // sometimes the whole literal in one escape form (adjacent \xXX \xXX, \uXXXX \uXXXX ... sequences)
        if self.vary && !self.src.exhausted() && self.src.chance(26) {
            self.uniform_escape = Some(*self.src.choose(&[2u8, 2, 3, 5, 4]));
        }
        for c in s.chars() {
            self.item(c, q);
        }
        self.uniform_escape = None;
        self.out.push(q);
    }

    fn range_part(&mut self, c: char) {
        self.out.push('\'');
        self.item(c, '\'');
        self.out.push('\'');
    }

    /// one string item for character c inside quotes `q`
    fn item(&mut self, c: char, q: char) {
        let cp = c as u32;
        // options: 0 raw, 1 simple, 2 \xXX, 3 \uXXXX, 4 \U00XXXXXX, 5 \u{..} minimal, 6 \u{..} zero padded
        let raw_ok = c != '\\' && c != q && !(q == '\'' && c == '\'');
        let raw_canonical = raw_ok && cp >= 0x20 && cp != 0x7f;
        let simple = match c {
            '\n' => Some('n'),
            '\r' => Some('r'),
            '\t' => Some('t'),
            '\\' => Some('\\'),
            '\'' => Some('\''),
            '"' => Some('"'),
            _ => None,
        };
        let mut opts: Vec<u8> = vec![];
        // canonical first
        if raw_canonical {
            opts.push(0);
        }
        if simple.is_some() {
            opts.push(1);
        }
        if cp <= 0xff {
            opts.push(2);
        }
        opts.push(5);
        if cp <= 0xffff {
            opts.push(3);
        }
        opts.push(4);
        opts.push(6);
        if raw_ok && !raw_canonical {
            opts.push(0);
        }
        let k = if let Some(u) = self.uniform_escape.filter(|u| opts.contains(u)) {
            u
        } else if self.vary && !self.src.exhausted() {
            if self.src.chance(150) {
                opts[0]
            } else {
                *self.src.choose(&opts)
            }
        } else {
            opts[0]
        };
        let upper = if self.vary && !self.src.exhausted() { self.src.chance(128) } else { false };
        let hex = |v: u32, w: usize| -> String {
            if upper {
                format!("{:0w$X}", v, w = w)
            } else {
                format!("{:0w$x}", v, w = w)
            }
        };
        self.stats.escape_kinds[k as usize] += 1;
        if k != 0 {
            self.stats.nonraw_escapes += 1;
        }
        match k {
            0 => self.out.push(c),
            1 => {
                self.out.push('\\');
                self.out.push(simple.unwrap());
            }
            2 => {
                self.out.push_str("\\x");
                self.out.push_str(&hex(cp, 2));
            }
            3 => {
                self.out.push_str("\\u");
                self.out.push_str(&hex(cp, 4));
            }
            4 => {
                self.out.push_str("\\U00");
                self.out.push_str(&hex(cp, 6));
            }
            5 => {
                self.out.push_str("\\u{");
                self.out.push_str(&hex(cp, 1));
                self.out.push('}');
            }
            _ => {
                let min = format!("{:x}", cp).len();
                let w = if self.vary && !self.src.exhausted() { self.src.range(min, 6) } else { 6 };
                self.out.push_str("\\u{");
                self.out.push_str(&hex(cp, w));
                self.out.push('}');
            }
        }
    }
}
