//! Batch plans: which grammars (and variants / configurations) a property's batch consists of.
use crate::gen::{self, Profile};
use crate::model::*;
use crate::util::{fnv64, seed_bytes};
use proptest::test_runner::{RngAlgorithm, TestRng};
use proptest::prelude::RngCore;
use serde::{Deserialize, Serialize};
use std::collections::BTreeMap;

#[derive(Serialize, Deserialize, Clone, Debug, PartialEq)]
pub struct SpecCfg {
    pub derives: Vec<String>,
    pub user_ctx: bool,
}

impl Default for SpecCfg {
    fn default() -> Self {
        SpecCfg { derives: vec!["Debug".into(), "Clone".into()], user_ctx: false }
    }
}

#[derive(Serialize, Deserialize, Clone, Debug, Default, PartialEq)]
pub struct SpecFlags {
    #[serde(default)]
    pub compile_only: bool,
    #[serde(default)]
    pub no_wrappers: bool,
    /// grammar has a @leftrec rule whose recursive alternatives are not listed first
    #[serde(default)]
    pub sentinel_allowed: bool,
    /// for constructive left-recursion oracle: see leftrec plan
    #[serde(default)]
    pub constructive: Option<LeftrecShape>,
}

#[derive(Serialize, Deserialize, Clone, Debug, PartialEq)]
pub struct LeftrecShape {
    pub rule: String,
    pub base: Vec<String>,
    pub ops: Vec<String>,
}

#[derive(Serialize, Deserialize, Clone, Debug)]
pub struct GrammarSpec {
    pub id: String,
    /// grammars of one group are variants of each other (C05 memo subsets, C13 include/inline pairs)
    #[serde(default)]
    pub group: Option<String>,
    #[serde(default)]
    pub role: String,
    pub profile: String,
    pub model: Grammar,
    #[serde(default)]
    pub cfg: SpecCfg,
    #[serde(default)]
    pub flags: SpecFlags,
    #[serde(default)]
    pub exported: Vec<String>,
}

pub fn rng_bytes(seed: u64, stream: &str, index: u64, n: usize) -> Vec<u8> {
    let s = seed_bytes(seed, fnv64(stream.as_bytes()), index);
    let mut rng = TestRng::from_seed(RngAlgorithm::ChaCha, &s);
    let mut v = vec![0u8; n];
    rng.fill_bytes(&mut v);
    v
}

pub struct GenStats {
    pub attempts: usize,
    pub rejected: BTreeMap<String, usize>,
}

/// generate `count` grammars of a profile; rejected draws are counted and replaced
pub fn profile_grammars(prof: &Profile, seed: u64, count: usize, wave: u64, stats: &mut GenStats) -> Vec<(Grammar, u64)> {
    let mut out = vec![];
    let mut idx = wave * 1_000_000;
    let nbytes = 600;
    let mut seen = std::collections::BTreeSet::new();
    while out.len() < count && stats.attempts < count * 50 + 100 {
        let bytes = rng_bytes(seed, prof.name, idx, nbytes);
        idx += 1;
        stats.attempts += 1;
        match gen::generate(&bytes, prof) {
            Ok(g) => {
                if seen.insert(g.hash64()) {
                    out.push((g, idx - 1));
                } else {
                    *stats.rejected.entry("duplicate".into()).or_insert(0) += 1;
                }
            }
            Err(why) => {
                *stats.rejected.entry(why.to_string()).or_insert(0) += 1;
            }
        }
    }
    out
}

fn spec(id: String, profile: &str, model: Grammar) -> GrammarSpec {
    GrammarSpec { id, group: None, role: String::new(), profile: profile.to_string(), model, cfg: SpecCfg::default(), flags: SpecFlags::default(), exported: vec![] }
}

pub fn make(plan: &str, seed: u64, count: usize, tier: &str, wave: u64) -> (Vec<GrammarSpec>, serde_json::Value) {
    let mut stats = GenStats { attempts: 0, rejected: BTreeMap::new() };
    let mut specs = vec![];
    let _ = tier;
    match plan {
        _ => {
            let prof = Profile::by_name(plan).unwrap_or_else(|| panic!("unknown plan {plan}"));
            for (k, (g, _idx)) in profile_grammars(&prof, seed, count, wave, &mut stats).into_iter().enumerate() {
                specs.push(spec(format!("g{:04}", k), plan, g));
            }
        }
    }
    let st = serde_json::json!({"attempts": stats.attempts, "rejected": stats.rejected, "accepted": specs.len()});
    (specs, st)
}
