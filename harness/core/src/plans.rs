//! Batch plans: which grammars (and variants / configurations) a property's batch consists of.
use crate::gen::{self, Profile};
use crate::model::*;
use crate::util::{fnv64, seed_bytes, Src};
use proptest::test_runner::{RngAlgorithm, TestRng};
use proptest::prelude::RngCore;
use serde::{Deserialize, Serialize};
use std::collections::BTreeMap;

#[derive(Serialize, Deserialize, Clone, Debug, PartialEq)]
pub struct SpecCfg {
    pub derives: Vec<String>,
    pub user_ctx: bool,
}

impl Default for SpecCfg {
    fn default() -> Self {
        SpecCfg { derives: vec!["Debug".into(), "Clone".into()], user_ctx: false }
    }
}

#[derive(Serialize, Deserialize, Clone, Debug, Default, PartialEq)]
pub struct SpecFlags {
    #[serde(default)]
    pub compile_only: bool,
    #[serde(default)]
    pub no_wrappers: bool,
    /// grammar has a @leftrec rule whose recursive alternatives are not listed first
    #[serde(default)]
    pub sentinel_allowed: bool,
    /// for constructive left-recursion oracle: see leftrec plan
    #[serde(default)]
    pub constructive: Option<LeftrecShape>,
    /// the module is produced by `peginate!("...")` instead of the library route (C16)
    #[serde(default)]
    pub via_macro: bool,
}

#[derive(Serialize, Deserialize, Clone, Debug, PartialEq)]
pub struct LeftrecShape {
    pub rule: String,
    pub base: Vec<String>,
    pub ops: Vec<String>,
}

#[derive(Serialize, Deserialize, Clone, Debug)]
pub struct GrammarSpec {
    pub id: String,
    /// grammars of one group are variants of each other (C05 memo subsets, C13 include/inline pairs)
    #[serde(default)]
    pub group: Option<String>,
    #[serde(default)]
    pub role: String,
    pub profile: String,
    pub model: Grammar,
    #[serde(default)]
    pub cfg: SpecCfg,
    #[serde(default)]
    pub flags: SpecFlags,
    #[serde(default)]
    pub exported: Vec<String>,
}

pub fn rng_bytes(seed: u64, stream: &str, index: u64, n: usize) -> Vec<u8> {
    let s = seed_bytes(seed, fnv64(stream.as_bytes()), index);
    let mut rng = TestRng::from_seed(RngAlgorithm::ChaCha, &s);
    let mut v = vec![0u8; n];
    rng.fill_bytes(&mut v);
    v
}

pub struct GenStats {
    pub attempts: usize,
    pub rejected: BTreeMap<String, usize>,
}

/// generate `count` grammars of a profile; rejected draws are counted and replaced
pub fn profile_grammars(prof: &Profile, seed: u64, count: usize, wave: u64, stats: &mut GenStats) -> Vec<(Grammar, u64)> {
    let mut out = vec![];
    let mut idx = wave * 1_000_000;
    let nbytes = if prof.max_depth > 5 { 1500 } else { 600 };
    let mut seen = std::collections::BTreeSet::new();
    while out.len() < count && stats.attempts < count * 50 + 100 {
        let bytes = rng_bytes(seed, prof.name, idx, nbytes);
        idx += 1;
        stats.attempts += 1;
        match gen::generate(&bytes, prof) {
            Ok(g) => {
                if seen.insert(g.hash64()) {
                    out.push((g, idx - 1));
                } else {
                    *stats.rejected.entry("duplicate".into()).or_insert(0) += 1;
                }
            }
            Err(why) => {
                *stats.rejected.entry(why.to_string()).or_insert(0) += 1;
            }
        }
    }
    out
}

fn spec(id: String, profile: &str, model: Grammar) -> GrammarSpec {
    GrammarSpec { id, group: None, role: String::new(), profile: profile.to_string(), model, cfg: SpecCfg::default(), flags: SpecFlags::default(), exported: vec![] }
}

// ------------------------------------------------------------------------------------------------
// left recursion: structured shapes (C07; also used by C10/C19/C20 mixes)
// ------------------------------------------------------------------------------------------------
const OPS: &[&str] = &["+", "-", "*", "/", "==", ".", "->", "é", "<", "%"];

fn atom_rule(src: &mut Src, name: &str) -> RuleDef {
    let mut d = vec![Directive::String];
    if src.chance(180) {
        d.push(Directive::NoSkipWs);
    }
    if src.chance(60) {
        d.push(Directive::Position);
    }
    let body = match src.pick(3) {
        0 => Expr::Range('a', 'c'),
        1 => Expr::Seq(vec![Expr::Range('a', 'c'), Expr::Star(Box::new(Expr::Range('0', '9')))]),
        _ => Expr::Choice(vec![Expr::lit("b"), Expr::lit("n"), Expr::Range('x', 'z')]),
    };
    RuleDef::Normal(NormalRule { name: name.into(), directives: d, body })
}

fn rec_dirs(src: &mut Src, export: bool) -> Vec<Directive> {
    let mut d = vec![Directive::Leftrec];
    if export {
        d.push(Directive::Export);
    }
    if src.chance(70) {
        d.push(Directive::Position);
    }
    if src.chance(50) {
        d.push(Directive::NoSkipWs);
    }
    if src.chance(30) {
        d.push(Directive::Memoize);
    }
    if src.chance(44) {
        // a check on the growing rule: it is part of every evaluation of the body, so it can stop the growth
        // (value-dependent ones: accept the short match, reject a longer one, or the other way round)
        let c = *src.choose(&["chk_short", "chk_hash", "chk_even", "chk_no_b", "chk_short", "chk_true"]);
        d.push(Directive::Check(vec!["verif_core".into(), "hooks".into(), c.into()]));
    }
    if src.chance(128) {
        let k = src.pick(d.len());
        d.rotate_left(k);
    }
    d
}

fn bref(field: &str, typ: &str, boxed: bool) -> Expr {
    Expr::Ref { field: FieldName::Named(field.into()), boxed, typ: typ.into() }
}

fn caller(src: &mut Src, target: &str) -> RuleDef {
    let body = match src.pick(8) {
        // an earlier alternative that gets further into the input WITHOUT entering the left-recursive rule and then fails:
        // the rule is entered with a furthest error that lies behind its own start
        6 => Expr::Choice(vec![
            Expr::Seq(vec![Expr::Star(Box::new(Expr::Seq(vec![Expr::Not(Box::new(Expr::lit("§"))), Expr::anon("char")]))), Expr::lit("§")]),
            bref("e", target, false),
        ]),
        7 => Expr::Choice(vec![Expr::Seq(vec![Expr::anon("char"), Expr::Opt(Box::new(Expr::anon("char"))), Expr::lit("§")]), Expr::Seq(vec![bref("e", target, false), Expr::Eoi])]),
        0 => Expr::Seq(vec![bref("e", target, false), Expr::Eoi]),
        1 => Expr::Seq(vec![Expr::Opt(Box::new(bref("e", target, false))), Expr::lit("!")]),
        2 => Expr::Star(Box::new(Expr::Seq(vec![bref("e", target, false), Expr::lit(";")]))),
        3 => Expr::Seq(vec![Expr::And(Box::new(Expr::anon(target))), bref("e", target, false)]),
        4 => Expr::Choice(vec![
            Expr::Seq(vec![bref("e", target, false), Expr::lit("y")]),
            Expr::Seq(vec![bref("e", target, false), Expr::lit("z")]),
        ]),
        _ => Expr::Seq(vec![Expr::Not(Box::new(Expr::Seq(vec![Expr::anon(target), Expr::lit("?")]))), bref("e", target, false)]),
    };
    let mut d = vec![Directive::Export];
    if src.chance(60) {
        d.push(Directive::NoSkipWs);
    }
    RuleDef::Normal(NormalRule { name: "Start".into(), directives: d, body })
}

pub fn leftrec_grammar(src: &mut Src) -> (Grammar, SpecFlags) {
    let mut flags = SpecFlags::default();
    let mut rules = vec![];
    let nops = 1 + src.pick(3);
    let mut ops: Vec<&str> = vec![];
    while ops.len() < nops {
        let o = *src.choose(OPS);
        if !ops.contains(&o) {
            ops.push(o);
        }
    }
    let shape = src.weighted(&[5, 4, 3, 3, 3]);
    match shape {
        0 | 3 => {
            // direct struct style; shape 3: recursive alternatives not first
            let mut arms: Vec<Expr> = ops.iter().map(|o| Expr::Seq(vec![bref("l", "E", true), Expr::lit(o), bref("r", "Atom", false)])).collect();
            // the seed alternative: usually an atom; sometimes it can match the empty string (growth from a zero-width seed)
            let seed_kind = src.weighted(&[10, 2, 2]);
            let base = match seed_kind {
                0 => bref("a", "Atom", false),
                1 => Expr::Seq(vec![]),
                _ => Expr::Opt(Box::new(bref("a", "Atom", false))),
            };
            if seed_kind != 0 && shape == 0 {
                // one-token growth steps as well, so that growth can run up to the end of the input
                arms.push(Expr::Seq(vec![bref("l", "E", true), Expr::lit(ops[0])]));
            }
            if shape == 3 {
                let k = src.pick(arms.len());
                arms.insert(k, base);
                flags.sentinel_allowed = true;
            } else {
                arms.push(base);
            }
            let d = rec_dirs(src, true);
            let plain = !d.contains(&Directive::Position) && shape == 0 && seed_kind == 0 && !d.iter().any(|x| matches!(x, Directive::Check(_)));
            rules.push(RuleDef::Normal(NormalRule { name: "E".into(), directives: d, body: Expr::Choice(arms) }));
            let atom = RuleDef::Normal(NormalRule {
                name: "Atom".into(),
                directives: vec![Directive::String, Directive::NoSkipWs],
                body: Expr::Range('a', 'c'),
            });
            if plain {
                flags.constructive = Some(LeftrecShape { rule: "E".into(), base: vec!["a".into(), "b".into(), "c".into()], ops: ops.iter().map(|s| s.to_string()).collect() });
                rules.push(atom);
            } else {
                rules.push(atom_rule(src, "Atom"));
            }
            rules.push(caller(src, "E"));
        }
        1 => {
            // enum style, indirect through non-memoized rules
            let mut arms = vec![];
            for (i, o) in ops.iter().enumerate() {
                let n = format!("Bin{i}");
                arms.push(Expr::Ref { field: FieldName::Override, boxed: src.chance(60), typ: n.clone() });
                rules.push(RuleDef::Normal(NormalRule {
                    name: n,
                    directives: if src.chance(60) { vec![Directive::Position] } else { vec![] },
                    body: Expr::Seq(vec![bref("l", "Expr", true), Expr::lit(o), bref("r", "Atom", false)]),
                }));
            }
            arms.push(Expr::over("Atom"));
            let mut d = rec_dirs(src, true);
            d.retain(|x| *x != Directive::Position);
            rules.insert(0, RuleDef::Normal(NormalRule { name: "Expr".into(), directives: d, body: Expr::Choice(arms) }));
            rules.push(atom_rule(src, "Atom"));
            rules.push(caller(src, "Expr"));
        }
        2 => {
            // two levels
            let mut d = rec_dirs(src, true);
            d.retain(|x| *x != Directive::Position);
            rules.push(RuleDef::Normal(NormalRule {
                name: "Expr".into(),
                directives: d,
                body: Expr::Choice(vec![Expr::over("Add"), Expr::over("Term")]),
            }));
            rules.push(RuleDef::Normal(NormalRule {
                name: "Add".into(),
                directives: vec![],
                body: Expr::Seq(vec![bref("l", "Expr", true), Expr::lit(ops[0]), bref("r", "Term", false)]),
            }));
            let mut d2 = rec_dirs(src, false);
            d2.retain(|x| *x != Directive::Position);
            rules.push(RuleDef::Normal(NormalRule {
                name: "Term".into(),
                directives: d2,
                body: Expr::Choice(vec![Expr::over("Mul"), Expr::over("Atom")]),
            }));
            rules.push(RuleDef::Normal(NormalRule {
                name: "Mul".into(),
                directives: vec![],
                body: Expr::Seq(vec![bref("l", "Term", true), Expr::lit(ops.get(1).copied().unwrap_or("*")), bref("r", "Atom", false)]),
            }));
            rules.push(atom_rule(src, "Atom"));
            rules.push(caller(src, "Expr"));
        }
        _ => {
            // exotic: recursion under lookahead / optional / through a nullable prefix
            flags.sentinel_allowed = true;
            let body = match src.pick(4) {
                0 => Expr::Choice(vec![
                    Expr::Seq(vec![Expr::Not(Box::new(Expr::anon("W"))), Expr::lit("b")]),
                    Expr::Seq(vec![Expr::anon("W"), Expr::lit("x")]),
                ]),
                1 => Expr::Seq(vec![Expr::Opt(Box::new(bref("l", "W", true))), Expr::lit("x")]),
                2 => Expr::Choice(vec![Expr::Seq(vec![Expr::anon("Via"), Expr::lit("x")]), Expr::lit("b")]),
                _ => Expr::Choice(vec![
                    Expr::Seq(vec![bref("l", "W", true), Expr::lit(ops[0])]),
                    Expr::Seq(vec![Expr::And(Box::new(Expr::lit("b"))), Expr::anon("char")]),
                ]),
            };
            rules.push(RuleDef::Normal(NormalRule { name: "W".into(), directives: rec_dirs(src, true), body }));
            rules.push(RuleDef::Normal(NormalRule {
                name: "Via".into(),
                directives: vec![],
                body: Expr::Seq(vec![Expr::Opt(Box::new(Expr::lit("q"))), Expr::anon("W")]),
            }));
            rules.push(caller(src, "W"));
        }
    }
    (Grammar { rules }.normalize(), flags)
}

fn leftrec_specs(seed: u64, count: usize, wave: u64, prefix: &str, stats: &mut GenStats) -> Vec<GrammarSpec> {
    let mut out = vec![];
    let mut seen = std::collections::BTreeSet::new();
    let mut idx = wave * 1_000_000;
    while out.len() < count && stats.attempts < count * 50 + 100 {
        let bytes = rng_bytes(seed, "leftrec", idx, 200);
        idx += 1;
        stats.attempts += 1;
        let mut src = Src::new(&bytes);
        let (g, flags) = leftrec_grammar(&mut src);
        match gen::finish(g) {
            Ok(g) => {
                if seen.insert(g.hash64()) {
                    let mut s = spec(format!("{prefix}{:04}", out.len()), "leftrec", g);
                    s.flags = flags;
                    out.push(s);
                } else {
                    *stats.rejected.entry("duplicate".into()).or_insert(0) += 1;
                }
            }
            Err(why) => *stats.rejected.entry(why.to_string()).or_insert(0) += 1,
        }
    }
    out
}

// ------------------------------------------------------------------------------------------------
// variants
// ------------------------------------------------------------------------------------------------
fn strip_memo(g: &Grammar) -> Grammar {
    let mut g = g.clone();
    for r in &mut g.rules {
        if let RuleDef::Normal(n) = r {
            n.remove(&Directive::Memoize);
        }
    }
    g
}

fn memo_variant(g: &Grammar, mask: &mut dyn FnMut(&str) -> bool) -> Grammar {
    let mut g = strip_memo(g);
    for r in &mut g.rules {
        if let RuleDef::Normal(n) = r {
            if !n.leftrec() && mask(&n.name) {
                n.add(Directive::Memoize);
            }
        }
    }
    g
}

fn inline_includes(g: &Grammar) -> Grammar {
    fn inl(g: &Grammar, e: &Expr, depth: usize) -> Expr {
        match e {
            Expr::Include(r) if depth < 32 => match g.normal(r) {
                Some(n) => Expr::Group(Box::new(inl(g, &n.body, depth + 1))),
                None => e.clone(),
            },
            Expr::Choice(v) => Expr::Choice(v.iter().map(|x| inl(g, x, depth)).collect()),
            Expr::Seq(v) => Expr::Seq(v.iter().map(|x| inl(g, x, depth)).collect()),
            Expr::Group(b) => Expr::Group(Box::new(inl(g, b, depth))),
            Expr::Opt(b) => Expr::Opt(Box::new(inl(g, b, depth))),
            Expr::Star(b) => Expr::Star(Box::new(inl(g, b, depth))),
            Expr::Plus(b) => Expr::Plus(Box::new(inl(g, b, depth))),
            Expr::Not(b) => Expr::Not(Box::new(inl(g, b, depth))),
            Expr::And(b) => Expr::And(Box::new(inl(g, b, depth))),
            other => other.clone(),
        }
    }
    let mut out = g.clone();
    for r in &mut out.rules {
        if let RuleDef::Normal(n) = r {
            n.body = inl(g, &n.body, 0);
        }
    }
    out.normalize()
}

fn has_include(g: &Grammar) -> bool {
    let mut found = false;
    for n in g.normals() {
        n.body.walk(&mut |e| {
            if matches!(e, Expr::Include(_)) {
                found = true
            }
        });
    }
    found
}

/// put a zero-width extern probe at the start of the body of up to 8 memoized rules
fn add_probes(g: &Grammar) -> Grammar {
    let mut out = g.clone();
    let mut k = 0;
    let mut probes = vec![];
    for r in &mut out.rules {
        if let RuleDef::Normal(n) = r {
            if n.memoize() && !n.leftrec() && k < 8 {
                let pname = format!("Probe{k}");
                let body = std::mem::replace(&mut n.body, Expr::Eoi);
                n.body = Expr::Seq(vec![Expr::anon(&pname), body]).normalize();
                probes.push(RuleDef::Extern(ExternRule {
                    name: pname,
                    function: vec!["verif_core".into(), "hooks".into(), format!("ext_probe{k}")],
                    ret: None,
                }));
                k += 1;
            }
        }
    }
    out.rules.extend(probes);
    out
}

fn to_ctx(g: &Grammar) -> Grammar {
    let mut g = g.clone();
    let fix = |p: &mut Vec<String>| {
        if let Some(last) = p.last_mut() {
            if !last.starts_with("c_") && (last.starts_with("chk_") || last.starts_with("ext_")) {
                *last = format!("c_{last}");
            }
        }
    };
    for r in &mut g.rules {
        match r {
            RuleDef::Normal(n) => {
                for d in &mut n.directives {
                    if let Directive::Check(p) = d {
                        fix(p)
                    }
                }
            }
            RuleDef::Extern(e) => fix(&mut e.function),
            RuleDef::CharClass(_) => {}
        }
    }
    g
}

/// profiles grow in the thorough tier (more rules, deeper expressions); odd waves only, so both sizes are explored
fn prof_for(name: &str, tier: &str, wave: u64) -> Option<Profile> {
    let mut p = Profile::by_name(name)?;
    if tier == "thorough" && wave % 2 == 1 {
        p.max_rules += 4;
        p.max_depth += 2;
    }
    Some(p)
}

/// "Wide" grammars: sizes beyond what the random generator produces - hundreds of rules / alternatives / sequence parts /
/// fields, very long identifiers and literals, deep bracket nesting. Counters, tables and name schemes sized for
/// "reasonable" grammars (u8 indices, fixed arrays, truncated names) show only here. Two per call, kinds rotate.
pub fn wide_specs(seed: u64, wave: u64, plan: &str) -> Vec<GrammarSpec> {
    let named = |f: &str, t: &str| Expr::Ref { field: FieldName::Named(f.into()), boxed: false, typ: t.into() };
    let unit = |name: String, lit: String| RuleDef::Normal(NormalRule { name, directives: vec![], body: Expr::lit(&lit) });
    let export = |name: &str, body: Expr| RuleDef::Normal(NormalRule { name: name.into(), directives: vec![Directive::Export], body });
    let mut out = vec![];
    for k in 0..2u64 {
        let kind = (seed + wave * 2 + k) % 6;
        let n = 257 + ((seed + wave) % 40) as usize;
        let mut rules: Vec<RuleDef> = vec![];
        match kind {
            0 => {
                // hundreds of rules, one field with hundreds of types (an enum with as many variants)
                let arms: Vec<Expr> = (0..n).map(|i| named("t", &format!("T{i}"))).collect();
                rules.push(export("Start", Expr::Seq(vec![Expr::Choice(arms), Expr::Eoi])));
                for i in 0..n {
                    rules.push(unit(format!("T{i}"), format!("x{i};")));
                }
            }
            1 => {
                // hundreds of parts in one sequence, a field every tenth part
                let mut parts = vec![];
                for i in 0..n {
                    if i % 10 == 3 {
                        parts.push(named(&format!("f{i}"), "char"));
                    } else {
                        parts.push(Expr::lit(&format!("{}", (b'a' + (i % 26) as u8) as char)));
                    }
                }
                rules.push(export("Start", Expr::Seq(parts)));
            }
            2 => {
                // hundreds of alternatives, longest first so that every one can win
                // the first alternative is a longer sequence: a failure deep inside it lies further than anything the
                // hundreds of later alternatives report
                let mut arms: Vec<Expr> = vec![Expr::Seq(vec![Expr::lit("q"), Expr::lit("="), Expr::anon("char"), Expr::lit("!"), Expr::lit(";")])];
                arms.extend((0..n).rev().map(|i| Expr::lit(&format!("k{i}"))));
                rules.push(export("Start", Expr::Seq(vec![Expr::Plus(Box::new(Expr::Group(Box::new(Expr::Choice(arms))))), Expr::Eoi])));
            }
            3 => {
                // very long identifiers and literals
                let long_rule = format!("R{}", "x".repeat(300));
                let long_field = format!("f{}", "y".repeat(300));
                let long_lit: String = (0..1100).map(|i| (b'a' + (i % 7) as u8) as char).collect();
                rules.push(export("Start", Expr::Seq(vec![named(&long_field, &long_rule), Expr::lit(&long_lit), named("z", "char")])));
                rules.push(RuleDef::Normal(NormalRule { name: long_rule, directives: vec![Directive::String], body: Expr::Plus(Box::new(Expr::Range('0', '9'))) }));
            }
            4 => {
                // a struct with many fields of all arities
                let mut parts = vec![];
                for i in 0..70 {
                    let f = named(&format!("g{i}"), if i % 3 == 0 { "char" } else { "D" });
                    parts.push(match i % 4 {
                        0 => f,
                        1 => Expr::Opt(Box::new(Expr::Seq(vec![Expr::lit("?"), f]))),
                        2 => Expr::Star(Box::new(Expr::Seq(vec![Expr::lit(","), f]))),
                        _ => Expr::Choice(vec![f, Expr::lit("-")]),
                    });
                }
                rules.push(export("Start", Expr::Seq(parts)));
                rules.push(RuleDef::Normal(NormalRule { name: "D".into(), directives: vec![Directive::String, Directive::NoSkipWs], body: Expr::Range('0', '9') }));
            }
            _ => {
                // deep (valid) bracket nesting: 18 levels alternating ( ) [ ] { } (the model travels as JSON, whose readers
                // stop at 128 levels)
                let mut e = Expr::Seq(vec![named("c", "char"), Expr::lit(";")]);
                for d in 0..18 {
                    e = match d % 3 {
                        0 => Expr::Group(Box::new(Expr::Choice(vec![e, Expr::lit(&format!("<{d}>"))]))),
                        1 => Expr::Opt(Box::new(Expr::Seq(vec![Expr::lit("["), e, Expr::lit("]")]))),
                        _ => Expr::Star(Box::new(Expr::Seq(vec![Expr::lit("{"), e, Expr::lit("}")]))),
                    };
                }
                rules.push(export("Start", Expr::Seq(vec![e, Expr::Eoi])));
            }
        }
        if let Ok(g) = gen::finish(Grammar { rules }.normalize()) {
            let mut s = spec(format!("v{:04}", k), plan, g);
            s.role = format!("wide{kind}");
            out.push(s);
        }
    }
    out
}

pub fn make(plan: &str, seed: u64, count: usize, tier: &str, wave: u64) -> (Vec<GrammarSpec>, serde_json::Value) {
    let mut stats = GenStats { attempts: 0, rejected: BTreeMap::new() };
    let mut specs = vec![];
    if matches!(plan, "core" | "fields" | "types" | "errors") {
        specs.extend(wide_specs(seed, wave, plan));
    }
    match plan {
        "leftrec" => specs = leftrec_specs(seed, count, wave, "g", &mut stats),
        "mixed" | "sched" | "errors" | "pos" => {
            let prof = prof_for(match plan {
                "sched" => "memo",
                "errors" => "core",
                "pos" => "pos",
                _ => "mixed",
            }, tier, wave)
            .unwrap();
            let nl = if plan == "errors" { count / 4 } else { count / 5 };
            // the schedule plan (C20) also gets grammars over the whole Unicode range (hidden state keyed by bytes)
            let nu = if plan == "sched" { count / 6 } else { 0 };
            if nu > 0 {
                let pu = prof_for("unicode", tier, wave).unwrap();
                for (k, (g, _)) in profile_grammars(&pu, seed ^ 0x55, nu, wave, &mut stats).into_iter().enumerate() {
                    specs.push(spec(format!("u{:04}", k), plan, g));
                }
            }
            // the error plan also needs field-rich grammars (multi-field optionals / closures have their own templates)
            let nf = if plan == "errors" { count / 4 } else { 0 };
            for (k, (g, _)) in profile_grammars(&prof, seed, count - nl - nf - nu, wave, &mut stats).into_iter().enumerate() {
                // schedule plan: every third grammar with a user context (hooks that can be made to panic: aborted parses)
                let ctx = plan == "sched" && k % 3 == 2;
                let mut s = spec(format!("g{:04}", k), plan, if ctx { to_ctx(&g) } else { g });
                s.cfg.user_ctx = ctx;
                specs.push(s);
            }
            if nf > 0 {
                let pf = prof_for("fields", tier, wave).unwrap();
                for (k, (g, _)) in profile_grammars(&pf, seed, nf - nf / 3, wave, &mut stats).into_iter().enumerate() {
                    specs.push(spec(format!("f{:04}", k), plan, g));
                }
                // and grammars with their own Whitespace rule (its failures are real attempts too)
                let mut pw = prof_for("ws", tier, wave).unwrap();
                pw.p_custom_ws = 230;
                pw.p_memoize = 0;
                for (k, (g, _)) in profile_grammars(&pw, seed, nf / 3, wave, &mut stats).into_iter().enumerate() {
                    specs.push(spec(format!("w{:04}", k), plan, g));
                }
            }
            specs.extend(leftrec_specs(seed, nl, wave, "l", &mut stats));
        }
        "memo" => {
            let groups = (count / 4).max(1);
            let mut base = profile_grammars(&prof_for("memo", tier, wave).unwrap(), seed, groups - groups / 2, wave, &mut stats);
            let nplain = base.len();
            // half of the groups mix skipping / non-skipping callers of memoized rules
            base.extend(profile_grammars(&prof_for("memows", tier, wave).unwrap(), seed, groups / 2, wave, &mut stats));
            for (k, (g, idx)) in base.into_iter().enumerate() {
                let plan = if k >= nplain { "memows" } else { "memo" };
                let bytes = rng_bytes(seed, "memo-mask", idx, 64);
                let names: Vec<String> = g.normals().map(|n| n.name.clone()).collect();
                let variants: Vec<(&str, Grammar)> = vec![
                    ("none", strip_memo(&g)),
                    ("all", memo_variant(&g, &mut |_| true)),
                    ("sub1", memo_variant(&g, &mut |n| bytes[names.iter().position(|x| x == n).unwrap_or(0) % 64] & 1 == 1)),
                    ("sub2", memo_variant(&g, &mut |n| bytes[names.iter().position(|x| x == n).unwrap_or(0) % 64] & 2 == 2)),
                ];
                // every third group is generated with a user context type (hooks take the context)
                let ctx = k % 3 == 2;
                for (vi, (role, vg)) in variants.into_iter().enumerate() {
                    let mut s = spec(format!("g{:04}v{}", k, vi), plan, if ctx { to_ctx(&vg) } else { vg });
                    s.group = Some(format!("m{:04}", k));
                    s.role = role.to_string();
                    s.cfg.user_ctx = ctx;
                    specs.push(s);
                }
            }
        }
        "probes" => {
            let prof = prof_for("memo", tier, wave).unwrap();
            for (k, (g, idx)) in profile_grammars(&prof, seed, count, wave, &mut stats).into_iter().enumerate() {
                // half of the grammars: all rules memoized (global bound applies)
                let all = idx % 2 == 0;
                let g2 = if all { memo_variant(&g, &mut |_| true) } else { g };
                let ctx = k % 3 == 2;
                let gp = add_probes(&g2);
                let mut s = spec(format!("g{:04}", k), plan, if ctx { to_ctx(&gp) } else { gp });
                s.role = if all { "all_memoized".into() } else { "subset".into() };
                s.cfg.user_ctx = ctx;
                specs.push(s);
            }
            // memoized rules on the cycle of a @leftrec rule (their failures against the growth seed are cached like any
            // other result): left-recursive shapes with every non-@leftrec rule memoized
            for s0 in leftrec_specs(seed, count / 8, wave, "l", &mut stats) {
                let g2 = memo_variant(&s0.model, &mut |_| true);
                let mut s = spec(s0.id.clone(), plan, add_probes(&g2));
                s.role = "subset".into();
                specs.push(s);
            }
        }
        "include" => {
            let prof = prof_for("include", tier, wave).unwrap();
            let want = (count / 2).max(1);
            let mut k = 0;
            let mut wv = wave * 16;
            while k < want && wv < wave * 16 + 16 {
                for (g, _) in profile_grammars(&prof, seed, want, wv, &mut stats) {
                    if k >= want {
                        break;
                    }
                    if !has_include(&g) {
                        *stats.rejected.entry("no include".into()).or_insert(0) += 1;
                        continue;
                    }
                    let inl = inline_includes(&g);
                    if gen::validate(&inl).is_err() {
                        *stats.rejected.entry("inlined variant not well-formed".into()).or_insert(0) += 1;
                        continue;
                    }
                    let mut a = spec(format!("g{:04}a", k), plan, g);
                    a.group = Some(format!("i{:04}", k));
                    a.role = "include".into();
                    let mut b = spec(format!("g{:04}b", k), plan, inl);
                    b.group = a.group.clone();
                    b.role = "inlined".into();
                    specs.push(a);
                    specs.push(b);
                    k += 1;
                }
                wv += 1;
            }
        }
        "macro" => {
            let want = (count / 2).max(1);
            let mut k = 0;
            for pname in ["fields", "mixed", "memo"] {
                let prof = prof_for(pname, tier, wave).unwrap();
                for (g, _) in profile_grammars(&prof, seed, want / 3 + 1, wave, &mut stats) {
                    if k >= want {
                        break;
                    }
                    // the macro always uses the default settings: no user context
                    let mut a = spec(format!("g{:04}a", k), plan, g.clone());
                    a.group = Some(format!("q{:04}", k));
                    a.role = "library".into();
                    let mut b = spec(format!("g{:04}b", k), plan, g);
                    b.group = a.group.clone();
                    b.role = "macro".into();
                    b.flags.via_macro = true;
                    specs.push(a);
                    specs.push(b);
                    k += 1;
                }
            }
        }
        "hooks" => {
            let mut prof = prof_for("hooks", tier, wave).unwrap();
            for (k, (g, _)) in profile_grammars(&prof, seed, count, wave, &mut stats).into_iter().enumerate() {
                let ctx = k % 2 == 1;
                let mut s = spec(format!("g{:04}", k), plan, if ctx { to_ctx(&g) } else { g });
                s.cfg.user_ctx = ctx;
                s.role = if ctx { "user_ctx".into() } else { "no_ctx".into() };
                specs.push(s);
            }
            // checks on left-recursive rules: the check is part of every evaluation of the growing body
            for (k, mut s) in leftrec_specs(seed, count / 8, wave, "l", &mut stats).into_iter().enumerate() {
                let ctx = k % 2 == 1;
                if ctx {
                    s.model = to_ctx(&s.model);
                }
                s.cfg.user_ctx = ctx;
                s.role = if ctx { "user_ctx".into() } else { "no_ctx".into() };
                specs.push(s);
            }
            prof.user_ctx = false;
        }
        "types" => {
            let prof = prof_for("types", tier, wave).unwrap();
            let derive_sets: [&[&str]; 4] = [&["Debug", "Clone"], &["Debug", "Clone", "PartialEq", "Eq"], &["Clone"], &[]];
            for (k, (g, _)) in profile_grammars(&prof, seed, count, wave, &mut stats).into_iter().enumerate() {
                let ds = derive_sets[k % 4];
                let ctx = (k / 4) % 2 == 1;
                let mut g = if ctx { to_ctx(&g) } else { g };
                if !ds.contains(&"Clone") {
                    g = strip_memo(&g);
                }
                if !ds.contains(&"Debug") {
                    // user check functions of this harness need Debug; use the unbounded one
                    for r in &mut g.rules {
                        if let RuleDef::Normal(n) = r {
                            for d in &mut n.directives {
                                if let Directive::Check(p) = d {
                                    let last = p.last_mut().unwrap();
                                    *last = if last.starts_with("c_") { "c_chk_any".into() } else { "chk_any".into() };
                                }
                            }
                        }
                    }
                }
                let mut s = spec(format!("g{:04}", k), plan, g);
                s.cfg.derives = ds.iter().map(|x| x.to_string()).collect();
                s.cfg.user_ctx = ctx;
                s.flags.compile_only = true;
                s.role = format!("derives={:?} ctx={}", ds, ctx);
                specs.push(s);
            }
        }
        _ => {
            let mut prof = prof_for(plan, tier, wave).unwrap_or_else(|| panic!("unknown plan {plan}"));
            // the fields plan (C02) also names fields and rules like raw-identifier keywords: the generated bindings are
            // `r#type` while the code generator's own bookkeeping uses the grammar's spelling (only here, so that the
            // other plans that borrow the "fields" profile keep producing the grammars their records were written for)
            if plan == "fields" {
                prof.keyword_names = true;
            }
            // the core plan (C01) takes a fifth of its grammars from the unicode profile: terminals over the whole Unicode
            // range are part of "the characters the syntax reference says"
            let nu = if plan == "core" { count / 5 } else { 0 };
            for (k, (g, _idx)) in profile_grammars(&prof, seed, count - nu, wave, &mut stats).into_iter().enumerate() {
                specs.push(spec(format!("g{:04}", k), plan, g));
            }
            if nu > 0 {
                let pu = prof_for("unicode", tier, wave).unwrap();
                for (k, (g, _)) in profile_grammars(&pu, seed ^ 0x55, nu, wave, &mut stats).into_iter().enumerate() {
                    specs.push(spec(format!("u{:04}", k), plan, g));
                }
            }
        }
    }
    let st = serde_json::json!({"attempts": stats.attempts, "rejected": stats.rejected, "accepted": specs.len()});
    (specs, st)
}
