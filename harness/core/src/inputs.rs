//! Grammar-directed input strings, decoded from a byte choice source (DESIGN.md App. C).
use crate::model::*;
use crate::util::Src;

pub const WS_CHARS: &[char] = &[' ', '\t', '\n', '\x0C', '\r'];
pub const NEAR_MISS: &[char] = &['\x0B', '\u{A0}', '\u{2003}', '\u{FEFF}', '\u{85}', '\u{2028}'];

#[derive(Debug, Clone, Copy, PartialEq, Eq)]
pub enum WsMode {
    /// no whitespace injection
    None,
    /// occasional real whitespace
    Light,
    /// whitespace / near misses at every gap independently (C08)
    Heavy,
}

pub struct InputCfg {
    pub max_len: usize,
    pub ws: WsMode,
    pub max_depth: usize,
}

impl Default for InputCfg {
    fn default() -> Self {
        InputCfg { max_len: 64, ws: WsMode::Light, max_depth: 7 }
    }
}

pub fn alphabet(g: &Grammar) -> Vec<char> {
    let mut set = std::collections::BTreeSet::new();
    let mut add_near = |set: &mut std::collections::BTreeSet<char>, c: char| {
        set.insert(c);
        if let Some(p) = char::from_u32((c as u32).wrapping_sub(1)) {
            set.insert(p);
        }
        if let Some(n) = char::from_u32(c as u32 + 1) {
            set.insert(n);
        }
    };
    for r in &g.rules {
        match r {
            RuleDef::Normal(n) => n.body.walk(&mut |e| match e {
                Expr::Lit { s, insensitive } => {
                    for c in s.chars() {
                        set.insert(c);
                        if *insensitive {
                            set.insert(c.to_ascii_uppercase());
                            set.insert(c.to_ascii_lowercase());
                            if c.is_ascii() && (c as u8 ^ 0x20) >= 0x20 {
                                set.insert((c as u8 ^ 0x20) as char);
                            }
                            // non-ASCII characters that case-fold to ASCII letters (must NOT match)
                            if c.eq_ignore_ascii_case(&'k') {
                                set.insert('\u{212A}');
                            }
                            if c.eq_ignore_ascii_case(&'s') {
                                set.insert('\u{17F}');
                            }
                            if c.eq_ignore_ascii_case(&'i') {
                                set.insert('\u{130}');
                                set.insert('\u{131}');
                            }
                        }
                    }
                }
                Expr::Range(a, b) => {
                    add_near(&mut set, *a);
                    add_near(&mut set, *b);
                }
                _ => {}
            }),
            RuleDef::CharClass(c) => {
                for p in &c.parts {
                    match p {
                        CharPart::Char(c) => add_near(&mut set, *c),
                        CharPart::Range(a, b) => {
                            add_near(&mut set, *a);
                            add_near(&mut set, *b);
                        }
                        _ => {}
                    }
                }
            }
            RuleDef::Extern(_) => {
                for c in ['a', 'b', 'z', '0', '7', ';', 'é'] {
                    set.insert(c);
                }
            }
        }
    }
    for c in [' ', '\n', '\t', 'a', 'b', 'x', 'é', '☃', '🙂', '\u{A0}'] {
        set.insert(c);
    }
    set.into_iter().collect()
}

struct Deriver<'g, 'a, 'b> {
    g: &'g Grammar,
    src: &'b mut Src<'a>,
    out: String,
    cfg: &'g InputCfg,
    alphabet: &'g [char],
    /// byte offsets of token starts (for mutation)
    tokens: Vec<usize>,
}

impl<'g, 'a, 'b> Deriver<'g, 'a, 'b> {
    fn ws(&mut self, skipping: bool) {
        match self.cfg.ws {
            WsMode::None => {}
            WsMode::Light => {
                if skipping && self.src.chance(50) {
                    self.out.push(*self.src.choose(WS_CHARS));
                    if self.src.chance(40) {
                        // a run of different whitespace characters
                        let n = self.src.range(1, 3);
                        for _ in 0..n {
                            self.out.push(*self.src.choose(WS_CHARS));
                        }
                    }
                } else if !skipping && self.src.chance(16) {
                    self.out.push(' ');
                }
            }
            WsMode::Heavy => {
                let k = self.src.weighted(&[10, 8, 6, 4, 3]);
                match k {
                    0 => {}
                    1 => self.out.push(' '),
                    2 => self.out.push(*self.src.choose(WS_CHARS)),
                    3 => {
                        let n = self.src.range(2, 4);
                        for _ in 0..n {
                            self.out.push(*self.src.choose(WS_CHARS));
                        }
                    }
                    _ => self.out.push(*self.src.choose(NEAR_MISS)),
                }
                let _ = skipping;
            }
        }
        // custom whitespace characters
        if self.g.has_custom_ws() && self.src.chance(40) {
            let pool: &[&str] = &["_", "~", "# c\n", "#\n", "\u{a0}", "\u{2003}", "# no newline"];
            self.out.push_str(*self.src.choose(pool));
        }
    }

    fn char_in(&mut self, a: char, b: char) -> char {
        let (lo, hi) = if a <= b { (a as u32, b as u32) } else { (b as u32, a as u32) };
        let k = self.src.weighted(&[3, 3, 2, 4]);
        let v = match k {
            0 => lo,
            1 => hi,
            2 => lo + (hi - lo) / 2,
            _ => lo + self.src.u32() % (hi - lo + 1),
        };
        char::from_u32(v).unwrap_or(a)
    }

    fn any_char(&mut self) -> char {
        *self.src.choose(self.alphabet)
    }

    fn expr(&mut self, e: &Expr, skipping: bool, depth: usize) {
        if self.out.len() > self.cfg.max_len * 2 {
            return;
        }
        let deep = depth >= self.cfg.max_depth;
        match e {
            Expr::Lit { s, insensitive } => {
                self.ws(skipping);
                self.tokens.push(self.out.len());
                if *insensitive {
                    for c in s.chars() {
                        if self.src.chance(14) && c.is_ascii() {
                            // the "bit 5 neighbour": the other case for letters, a near miss for everything else
                            self.out.push(((c as u8) ^ 0x20) as char)
                        } else if self.src.chance(128) {
                            self.out.push(c.to_ascii_uppercase())
                        } else {
                            self.out.push(c.to_ascii_lowercase())
                        }
                    }
                } else {
                    self.out.push_str(s);
                }
            }
            Expr::Range(a, b) => {
                self.ws(skipping);
                self.tokens.push(self.out.len());
                let c = self.char_in(*a, *b);
                self.out.push(c);
            }
            Expr::Eoi => self.ws(skipping),
            Expr::Ref { typ, .. } => {
                self.ws(skipping);
                self.tokens.push(self.out.len());
                self.rule(typ, depth + 1);
            }
            Expr::Seq(v) => {
                for p in v {
                    self.expr(p, skipping, depth);
                }
            }
            Expr::Choice(v) => {
                let k = if deep { 0 } else { self.src.pick(v.len()) };
                self.expr(&v[k], skipping, depth + 1);
            }
            Expr::Group(b) => self.expr(b, skipping, depth),
            Expr::Opt(b) => {
                if !deep && self.src.chance(150) {
                    self.expr(b, skipping, depth + 1)
                }
            }
            Expr::Star(b) | Expr::Plus(b) => {
                let min = if matches!(e, Expr::Plus(_)) { 1 } else { 0 };
                let n = if deep { min } else { min + self.src.weighted(&[16, 20, 12, 4, 2, 1, 1, 1]) };
                for _ in 0..n {
                    self.expr(b, skipping, depth + 1);
                }
            }
            Expr::Not(_) => {}
            Expr::And(b) => {
                // emit what the lookahead wants, then rewind is impossible; emit nothing and hope,
                // or (sometimes) emit its text so that the following part may or may not match
                if self.src.chance(20) {
                    self.expr(b, skipping, depth + 1)
                }
            }
            Expr::Include(r) => {
                if let Some(n) = self.g.normal(r) {
                    self.expr(&n.body, skipping, depth + 1)
                }
            }
        }
    }

    fn rule(&mut self, name: &str, depth: usize) {
        if name == "char" && self.g.find("char").is_none() {
            let c = self.any_char();
            self.out.push(c);
            return;
        }
        match self.g.find(name) {
            None => {}
            Some(RuleDef::Normal(n)) => {
                if depth > self.cfg.max_depth + 6 {
                    return;
                }
                self.expr(&n.body, !n.no_skip_ws(), depth)
            }
            Some(RuleDef::CharClass(c)) => {
                let k = self.src.pick(c.parts.len());
                match &c.parts[k] {
                    CharPart::Char(ch) => self.out.push(*ch),
                    CharPart::Range(a, b) => {
                        let ch = self.char_in(*a, *b);
                        self.out.push(ch)
                    }
                    CharPart::Class(n) => {
                        let n = n.clone();
                        if n == "char" {
                            let c = self.any_char();
                            self.out.push(c);
                        } else {
                            self.rule(&n, depth + 1)
                        }
                    }
                }
            }
            Some(RuleDef::Extern(e)) => {
                let path = e.function.join("::");
                let (short, _) = crate::hooks::short_name(&path);
                let pools: &[&str] = match short {
                    "ext_word" => &["a", "ab", "zeta", "b"],
                    "ext_one" => &["a", "é", "🙂", ";"],
                    "ext_num" => &["0", "42", "007"],
                    "ext_opt_a" => &["a", ""],
                    "ext_wide" => &["é", "☃", "🙂"],
                    "ext_upto" => &[";", "ab;", "é b;"],
                    _ => &[""],
                };
                self.out.push_str(*self.src.choose(pools));
            }
        }
    }
}

fn mutate(s: &str, tokens: &[usize], src: &mut Src, alphabet: &[char]) -> String {
    let mut chars: Vec<char> = s.chars().collect();
    let edits = 1 + src.weighted(&[6, 3, 1]);
    for _ in 0..edits {
        let n = chars.len();
        let k = src.weighted(&[4, 4, 4, 2, 2, 2, 2, 2]);
        match k {
            0 if n > 0 => {
                let i = src.pick(n);
                chars.remove(i);
            }
            1 => {
                let i = src.pick(n + 1);
                chars.insert(i, *src.choose(alphabet));
            }
            2 if n > 0 => {
                let i = src.pick(n);
                chars[i] = *src.choose(alphabet);
            }
            3 if n > 0 => {
                // neighbour code point
                let i = src.pick(n);
                let d = if src.chance(128) { 1i64 } else { -1 };
                if let Some(c) = char::from_u32((chars[i] as i64 + d).max(0) as u32) {
                    chars[i] = c;
                }
            }
            4 if n > 0 => {
                // case flip
                let i = src.pick(n);
                let c = chars[i];
                chars[i] = if c.is_ascii_uppercase() { c.to_ascii_lowercase() } else { c.to_ascii_uppercase() };
            }
            5 if n > 0 => {
                let i = src.pick(n);
                chars.truncate(i);
            }
            6 => {
                let m = src.range(1, 3);
                for _ in 0..m {
                    chars.push(*src.choose(alphabet));
                }
            }
            7 if !tokens.is_empty() && n > 0 => {
                // duplicate a token-ish slice
                let t = tokens[src.pick(tokens.len())];
                let ci = s[..t.min(s.len())].chars().count().min(n - 1);
                let len = src.range(1, 3).min(n - ci);
                let slice: Vec<char> = chars[ci..ci + len].to_vec();
                for (k, c) in slice.into_iter().enumerate() {
                    chars.insert(ci + k, c);
                }
            }
            _ => {}
        }
    }
    chars.into_iter().collect()
}

fn clip(s: String, max: usize) -> String {
    if s.len() <= max {
        return s;
    }
    let mut i = max;
    while !s.is_char_boundary(i) {
        i -= 1;
    }
    s[..i].to_string()
}

#[derive(Debug, Clone, Copy, PartialEq, Eq)]
pub enum InputKind {
    Derived,
    Mutated,
    Alphabet,
}

/// Build one input for (grammar, rule) from choice bytes.
pub fn build_input(g: &Grammar, rule: &str, bytes: &[u8], cfg: &InputCfg, alphabet: &[char]) -> (String, InputKind) {
    let mut src = Src::new(bytes);
    let mode_raw = src.weighted(&[10, 6, 4, 1]);
    let repeat = mode_raw == 3;
    let mode = if repeat { 0 } else { mode_raw };
    if mode == 2 {
        let n = src.range(0, 12);
        let mut s = String::new();
        for _ in 0..n {
            s.push(*src.choose(alphabet));
        }
        return (clip(s, cfg.max_len), InputKind::Alphabet);
    }
    let mut d = Deriver { g, src: &mut src, out: String::new(), cfg, alphabet, tokens: vec![] };
    d.rule(rule, 0);
    // trailing text: whitespace and/or junk
    if d.src.chance(40) {
        d.ws(true);
    }
    if d.src.chance(30) {
        let c = d.any_char();
        d.out.push(c);
    }
    let out = std::mem::take(&mut d.out);
    let tokens = std::mem::take(&mut d.tokens);
    if repeat {
        // a long periodic input: the derivation repeated (closures, caches and error bookkeeping over many positions)
        // rarely a very long one (hundreds of iterations: counters, caches, stack use)
        let very_long = src.chance(24);
        let n = if very_long { src.range(60, 400) } else { src.range(2, 8) };
        let sep = *src.choose(&["", " ", ",", ";"]);
        let mut long = String::new();
        for i in 0..n {
            if i > 0 {
                long.push_str(sep);
            }
            long.push_str(&out);
        }
        let cap = if very_long { cfg.max_len * 12 } else { cfg.max_len };
        return (clip(long, cap), InputKind::Derived);
    }
    if mode == 0 {
        (clip(out, cfg.max_len), InputKind::Derived)
    } else {
        let m = mutate(&out, &tokens, &mut src, alphabet);
        (clip(m, cfg.max_len), InputKind::Mutated)
    }
}
