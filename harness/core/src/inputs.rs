//! Grammar-directed input strings, decoded from a byte choice source (DESIGN.md App. C).
use crate::model::*;
use crate::util::Src;

pub const WS_CHARS: &[char] = &[' ', '\t', '\n', '\x0C', '\r'];
pub const NEAR_MISS: &[char] = &['\x0B', '\u{A0}', '\u{2003}', '\u{FEFF}', '\u{85}', '\u{2028}'];

#[derive(Debug, Clone, Copy, PartialEq, Eq)]
pub enum WsMode {
    /// no whitespace injection
    None,
    /// occasional real whitespace
    Light,
    /// whitespace / near misses at every gap independently (C08)
    Heavy,
}

pub struct InputCfg {
    pub max_len: usize,
    pub ws: WsMode,
    pub max_depth: usize,
}

impl Default for InputCfg {
    fn default() -> Self {
        InputCfg { max_len: 64, ws: WsMode::Light, max_depth: 7 }
    }
}

pub fn alphabet(g: &Grammar) -> Vec<char> {
    let mut set = std::collections::BTreeSet::new();
    let mut add_near = |set: &mut std::collections::BTreeSet<char>, c: char| {
        set.insert(c);
        if let Some(p) = char::from_u32((c as u32).wrapping_sub(1)) {
            set.insert(p);
        }
        if let Some(n) = char::from_u32(c as u32 + 1) {
            set.insert(n);
        }
    };
    for r in &g.rules {
        match r {
            RuleDef::Normal(n) => n.body.walk(&mut |e| match e {
                Expr::Lit { s, insensitive } => {
                    for c in s.chars() {
                        set.insert(c);
                        if *insensitive {
                            set.insert(c.to_ascii_uppercase());
                            set.insert(c.to_ascii_lowercase());
                            if c.is_ascii() && (c as u8 ^ 0x20) >= 0x20 {
                                set.insert((c as u8 ^ 0x20) as char);
                            }
                            // non-ASCII characters that case-fold to ASCII letters (must NOT match)
                            if c.eq_ignore_ascii_case(&'k') {
                                set.insert('\u{212A}');
                            }
                            if c.eq_ignore_ascii_case(&'s') {
                                set.insert('\u{17F}');
                            }
                            if c.eq_ignore_ascii_case(&'i') {
                                set.insert('\u{130}');
                                set.insert('\u{131}');
                            }
                        }
                    }
                }
                Expr::Range(a, b) => {
                    add_near(&mut set, *a);
                    add_near(&mut set, *b);
                }
                _ => {}
            }),
            RuleDef::CharClass(c) => {
                for p in &c.parts {
                    match p {
                        CharPart::Char(c) => add_near(&mut set, *c),
                        CharPart::Range(a, b) => {
                            add_near(&mut set, *a);
                            add_near(&mut set, *b);
                        }
                        _ => {}
                    }
                }
            }
            RuleDef::Extern(_) => {
                for c in ['a', 'b', 'z', '0', '7', ';', 'é'] {
                    set.insert(c);
                }
            }
        }
    }
    for c in [' ', '\n', '\t', 'a', 'b', 'x', 'é', '☃', '🙂', '\u{A0}'] {
        set.insert(c);
    }
    // generic trouble makers: BOM, NUL, DEL, first non-ASCII code point, Unicode-only white space, a combining mark, the last
    // code point
    for c in ['\u{FEFF}', '\0', '\u{7f}', '\u{80}', '\u{85}', '\u{3000}', '\u{301}', '\u{10FFFF}'] {
        set.insert(c);
    }
    set.into_iter().collect()
}

struct Deriver<'g, 'a, 'b> {
    g: &'g Grammar,
    src: &'b mut Src<'a>,
    out: String,
    cfg: &'g InputCfg,
    alphabet: &'g [char],
    /// byte offsets of token starts (for mutation)
    tokens: Vec<usize>,
    /// "pump" mode: number of entries into recursive rules still to be forced (deeply nested inputs)
    pump_left: usize,
    /// rules from which a recursive rule (one that can reach itself) is reachable; only filled in pump mode
    pumpable: std::collections::BTreeSet<String>,
}

/// rules that can reach themselves, and rules from which such a rule is reachable
pub fn pumpable_rules(g: &Grammar) -> std::collections::BTreeSet<String> {
    use std::collections::{BTreeMap, BTreeSet};
    let mut direct: BTreeMap<String, BTreeSet<String>> = BTreeMap::new();
    for n in g.normals() {
        let mut set = BTreeSet::new();
        n.body.walk(&mut |e| match e {
            Expr::Ref { typ, .. } => {
                set.insert(typ.clone());
            }
            Expr::Include(r) => {
                set.insert(r.clone());
            }
            _ => {}
        });
        direct.insert(n.name.clone(), set);
    }
    // transitive closure (grammars are small)
    let mut reach = direct.clone();
    loop {
        let mut changed = false;
        let snapshot = reach.clone();
        for (_, set) in reach.iter_mut() {
            let add: Vec<String> = set.iter().filter_map(|t| snapshot.get(t)).flatten().cloned().collect();
            for a in add {
                changed |= set.insert(a);
            }
        }
        if !changed {
            break;
        }
    }
    let cyclic: BTreeSet<String> = reach.iter().filter(|(k, v)| v.contains(*k)).map(|(k, _)| k.clone()).collect();
    reach.iter().filter(|(k, v)| cyclic.contains(*k) || v.iter().any(|t| cyclic.contains(t))).map(|(k, _)| k.clone()).collect()
}

impl<'g, 'a, 'b> Deriver<'g, 'a, 'b> {
    fn ws(&mut self, skipping: bool) {
        match self.cfg.ws {
            WsMode::None => {}
            WsMode::Light => {
                if skipping && self.src.chance(50) {
                    self.out.push(*self.src.choose(WS_CHARS));
                    if self.src.chance(40) {
                        // a run of different whitespace characters
                        let n = self.src.range(1, 3);
                        for _ in 0..n {
                            self.out.push(*self.src.choose(WS_CHARS));
                        }
                    }
                } else if !skipping && self.src.chance(16) {
                    self.out.push(' ');
                }
            }
            WsMode::Heavy => {
                let k = self.src.weighted(&[10, 8, 6, 4, 3]);
                match k {
                    0 => {}
                    1 => self.out.push(' '),
                    2 => self.out.push(*self.src.choose(WS_CHARS)),
                    3 => {
                        let n = self.src.range(2, 4);
                        for _ in 0..n {
                            self.out.push(*self.src.choose(WS_CHARS));
                        }
                    }
                    _ => self.out.push(*self.src.choose(NEAR_MISS)),
                }
                let _ = skipping;
            }
        }
        // rarely a long run (8..24) of whitespace characters with a near miss somewhere inside (chunked / vectorised
        // scanners treat the first bytes, the full chunks and the tail differently)
        if skipping && self.src.chance(5) {
            let n = self.src.range(8, 24);
            let miss_at = if self.src.chance(150) { self.src.pick(n) } else { n };
            for i in 0..n {
                if i == miss_at {
                    self.out.push(*self.src.choose(NEAR_MISS));
                } else {
                    self.out.push(*self.src.choose(WS_CHARS));
                }
            }
        }
        // custom whitespace characters
        if self.g.has_custom_ws() && self.src.chance(40) {
            let pool: &[&str] = &["_", "~", "# c\n", "#\n", "\u{a0}", "\u{2003}", "# no newline"];
            self.out.push_str(*self.src.choose(pool));
        }
    }

    fn char_in(&mut self, a: char, b: char) -> char {
        let (lo, hi) = if a <= b { (a as u32, b as u32) } else { (b as u32, a as u32) };
        let k = self.src.weighted(&[3, 3, 2, 4]);
        let v = match k {
            0 => lo,
            1 => hi,
            2 => lo + (hi - lo) / 2,
            _ => lo + self.src.u32() % (hi - lo + 1),
        };
        char::from_u32(v).unwrap_or(a)
    }

    fn any_char(&mut self) -> char {
        *self.src.choose(self.alphabet)
    }

    fn pumps(&self, e: &Expr) -> bool {
        self.pump_left > 0 && self.recursive(e)
    }

    fn recursive(&self, e: &Expr) -> bool {
        let mut found = false;
        e.walk(&mut |x| match x {
            Expr::Ref { typ, .. } if self.pumpable.contains(typ) => found = true,
            Expr::Include(r) if self.pumpable.contains(r) => found = true,
            _ => {}
        });
        found
    }

    fn expr(&mut self, e: &Expr, skipping: bool, depth: usize) {
        let pumping = self.pump_left > 0;
        if self.out.len() > if pumping { PUMP_MAX_LEN } else { self.cfg.max_len * 2 } {
            return;
        }
        // in pump mode everything off the recursive path is kept minimal
        let deep = depth >= self.cfg.max_depth || !self.pumpable.is_empty();
        match e {
            Expr::Lit { s, insensitive } => {
                self.ws(skipping);
                self.tokens.push(self.out.len());
                if *insensitive {
                    for c in s.chars() {
                        if self.src.chance(14) && c.is_ascii() {
                            // the "bit 5 neighbour": the other case for letters, a near miss for everything else
                            self.out.push(((c as u8) ^ 0x20) as char)
                        } else if self.src.chance(128) {
                            self.out.push(c.to_ascii_uppercase())
                        } else {
                            self.out.push(c.to_ascii_lowercase())
                        }
                    }
                } else {
                    self.out.push_str(s);
                }
            }
            Expr::Range(a, b) => {
                self.ws(skipping);
                self.tokens.push(self.out.len());
                let c = self.char_in(*a, *b);
                self.out.push(c);
            }
            Expr::Eoi => self.ws(skipping),
            Expr::Ref { typ, .. } => {
                self.ws(skipping);
                self.tokens.push(self.out.len());
                self.rule(typ, depth + 1);
            }
            Expr::Seq(v) => {
                for p in v {
                    self.expr(p, skipping, depth);
                }
            }
            Expr::Choice(v) => {
                let pumping_arms: Vec<usize> = (0..v.len()).filter(|i| self.pumps(&v[*i])).collect();
                let k = if !pumping_arms.is_empty() {
                    pumping_arms[self.src.pick(pumping_arms.len())]
                } else if !self.pumpable.is_empty() {
                    // pump exhausted: leave the recursion through the first alternative that does not recurse
                    (0..v.len()).find(|i| !self.recursive(&v[*i])).unwrap_or(0)
                } else if deep {
                    0
                } else {
                    self.src.pick(v.len())
                };
                self.expr(&v[k], skipping, depth + 1);
            }
            Expr::Group(b) => self.expr(b, skipping, depth),
            Expr::Opt(b) => {
                if self.pumps(b) || (!deep && self.src.chance(150)) {
                    self.expr(b, skipping, depth + 1)
                }
            }
            Expr::Star(b) | Expr::Plus(b) => {
                let min = if matches!(e, Expr::Plus(_)) { 1 } else { 0 };
                let n = if self.pumps(b) { 1 } else if deep { min } else { min + self.src.weighted(&[16, 20, 12, 4, 2, 1, 1, 1]) };
                for _ in 0..n {
                    self.expr(b, skipping, depth + 1);
                }
            }
            Expr::Not(_) => {}
            Expr::And(b) => {
                // emit what the lookahead wants, then rewind is impossible; emit nothing and hope,
                // or (sometimes) emit its text so that the following part may or may not match
                if self.src.chance(20) {
                    self.expr(b, skipping, depth + 1)
                }
            }
            Expr::Include(r) => {
                if let Some(n) = self.g.normal(r) {
                    self.expr(&n.body, skipping, depth + 1)
                }
            }
        }
    }

    fn rule(&mut self, name: &str, depth: usize) {
        if name == "char" && self.g.find("char").is_none() {
            let c = self.any_char();
            self.out.push(c);
            return;
        }
        match self.g.find(name) {
            None => {}
            Some(RuleDef::Normal(n)) => {
                if self.pump_left > 0 && self.pumpable.contains(name) {
                    // forced descent along a recursive path: the nesting budget is the pump counter, not `depth`
                    self.pump_left -= 1;
                    self.expr(&n.body, !n.no_skip_ws(), depth.min(self.cfg.max_depth.saturating_sub(1)));
                    return;
                }
                if depth > self.cfg.max_depth + 6 {
                    return;
                }
                self.expr(&n.body, !n.no_skip_ws(), depth)
            }
            Some(RuleDef::CharClass(c)) => {
                let k = self.src.pick(c.parts.len());
                match &c.parts[k] {
                    CharPart::Char(ch) => self.out.push(*ch),
                    CharPart::Range(a, b) => {
                        let ch = self.char_in(*a, *b);
                        self.out.push(ch)
                    }
                    CharPart::Class(n) => {
                        let n = n.clone();
                        if n == "char" {
                            let c = self.any_char();
                            self.out.push(c);
                        } else {
                            self.rule(&n, depth + 1)
                        }
                    }
                }
            }
            Some(RuleDef::Extern(e)) => {
                let path = e.function.join("::");
                let (short, _) = crate::hooks::short_name(&path);
                let pools: &[&str] = match short {
                    "ext_word" => &["a", "ab", "zeta", "b"],
                    "ext_one" => &["a", "é", "🙂", ";"],
                    "ext_num" => &["0", "42", "007"],
                    "ext_opt_a" => &["a", ""],
                    "ext_wide" => &["é", "☃", "🙂"],
                    "ext_upto" => &[";", "ab;", "é b;"],
                    _ => &[""],
                };
                self.out.push_str(*self.src.choose(pools));
            }
        }
    }
}

fn mutate(s: &str, tokens: &[usize], src: &mut Src, alphabet: &[char]) -> String {
    let mut chars: Vec<char> = s.chars().collect();
    let edits = 1 + src.weighted(&[6, 3, 1]);
    for _ in 0..edits {
        let n = chars.len();
        let k = src.weighted(&[4, 4, 4, 2, 2, 2, 2, 2]);
        match k {
            0 if n > 0 => {
                let i = src.pick(n);
                chars.remove(i);
            }
            1 => {
                let i = src.pick(n + 1);
                chars.insert(i, *src.choose(alphabet));
            }
            2 if n > 0 => {
                let i = src.pick(n);
                chars[i] = *src.choose(alphabet);
            }
            3 if n > 0 => {
                // neighbour code point
                let i = src.pick(n);
                let d = if src.chance(128) { 1i64 } else { -1 };
                if let Some(c) = char::from_u32((chars[i] as i64 + d).max(0) as u32) {
                    chars[i] = c;
                }
            }
            4 if n > 0 => {
                // case flip
                let i = src.pick(n);
                let c = chars[i];
                chars[i] = if c.is_ascii_uppercase() { c.to_ascii_lowercase() } else { c.to_ascii_uppercase() };
            }
            5 if n > 0 => {
                let i = src.pick(n);
                chars.truncate(i);
            }
            6 => {
                let m = src.range(1, 3);
                for _ in 0..m {
                    chars.push(*src.choose(alphabet));
                }
            }
            7 if !tokens.is_empty() && n > 0 => {
                // duplicate a token-ish slice
                let t = tokens[src.pick(tokens.len())];
                let ci = s[..t.min(s.len())].chars().count().min(n - 1);
                let len = src.range(1, 3).min(n - ci);
                let slice: Vec<char> = chars[ci..ci + len].to_vec();
                for (k, c) in slice.into_iter().enumerate() {
                    chars.insert(ci + k, c);
                }
            }
            _ => {}
        }
    }
    chars.into_iter().collect()
}

fn clip(s: String, max: usize) -> String {
    if s.len() <= max {
        return s;
    }
    let mut i = max;
    while !s.is_char_boundary(i) {
        i -= 1;
    }
    s[..i].to_string()
}

#[derive(Debug, Clone, Copy, PartialEq, Eq)]
pub enum InputKind {
    Derived,
    Mutated,
    Alphabet,
    /// deeply nested: a recursive path of the grammar followed to a chosen depth
    Pumped,
    /// any of the above with an unusual first character (BOM, zero width space, NUL ...)
    OddStart,
}

/// upper bound on the length of a "pumped" (deeply nested) input
pub const PUMP_MAX_LEN: usize = 24_000;

/// characters that a careless front end might treat specially at the very start of the input
pub const LEADING_ODDITIES: &[char] = &['\u{FEFF}', '\u{200B}', '\0', '\u{FFFE}', '\u{2060}', '\u{1}'];

/// nesting depths for pumped inputs: dense around powers of two and round numbers (where depth limits, counters
/// and table sizes live), sparse in between
fn pump_depth(src: &mut Src) -> usize {
    let jitter = |src: &mut Src| src.range(0, 8) as i64 - 4;
    match src.weighted(&[6, 5, 4, 3]) {
        0 => src.range(8, 120),
        1 => {
            let k = src.range(6, 10) as u32; // 64 .. 1024
            ((1i64 << k) + jitter(src)).max(1) as usize
        }
        2 => {
            let base = *src.choose(&[100i64, 200, 250, 500, 1000]);
            (base + jitter(src)).max(1) as usize
        }
        _ => src.range(120, 1200),
    }
}

/// Build one input for (grammar, rule) from choice bytes.
pub fn build_input(g: &Grammar, rule: &str, bytes: &[u8], cfg: &InputCfg, alphabet: &[char]) -> (String, InputKind) {
    let mut src = Src::new(bytes);
    let (s, kind) = build_input_core(g, rule, &mut src, cfg, alphabet);
    if src.chance(8) {
        // an unusual very first character (byte order mark, zero width space, NUL ...)
        let mut t = String::new();
        t.push(*src.choose(LEADING_ODDITIES));
        t.push_str(&s);
        let _ = kind;
        return (t, InputKind::OddStart);
    }
    (s, kind)
}

fn build_input_core<'a>(g: &Grammar, rule: &str, src: &mut Src<'a>, cfg: &InputCfg, alphabet: &[char]) -> (String, InputKind) {
    let mode_raw = src.weighted(&[20, 12, 8, 2, 1]);
    if mode_raw == 4 {
        // pumped input: follow a recursive path of the grammar to a chosen nesting depth
        let pumpable = pumpable_rules(g);
        if !pumpable.is_empty() {
            let depth = pump_depth(src);
            let mut d = Deriver { g, src: &mut *src, out: String::new(), cfg, alphabet, tokens: vec![], pump_left: depth, pumpable };
            d.rule(rule, 0);
            let out = std::mem::take(&mut d.out);
            return (clip(out, PUMP_MAX_LEN), InputKind::Pumped);
        }
    }
    let repeat = mode_raw == 3;
    let mode = if repeat || mode_raw == 4 { 0 } else { mode_raw };
    if mode == 2 {
        let n = src.range(0, 12);
        let mut s = String::new();
        for _ in 0..n {
            s.push(*src.choose(alphabet));
        }
        return (clip(s, cfg.max_len), InputKind::Alphabet);
    }
    let mut d = Deriver { g, src: &mut *src, out: String::new(), cfg, alphabet, tokens: vec![], pump_left: 0, pumpable: Default::default() };
    d.rule(rule, 0);
    // trailing text: whitespace and/or junk
    if d.src.chance(40) {
        d.ws(true);
    }
    if d.src.chance(30) {
        let c = d.any_char();
        d.out.push(c);
    }
    let out = std::mem::take(&mut d.out);
    let tokens = std::mem::take(&mut d.tokens);
    if repeat {
        // a long periodic input: the derivation repeated (closures, caches and error bookkeeping over many positions)
        // rarely a very long one (hundreds of iterations: counters, caches, stack use)
        let very_long = src.chance(24);
        // and of those a quarter "ultra long": more than a thousand repetitions (tables, counters and per-position state
        // sized for "reasonable" inputs)
        let ultra = very_long && src.chance(16);
        let n = if ultra { src.range(1030, 2100) } else if very_long { src.range(60, 400) } else { src.range(2, 8) };
        let sep = *src.choose(&["", " ", ",", ";"]);
        let mut long = String::new();
        for i in 0..n {
            if i > 0 {
                long.push_str(sep);
            }
            long.push_str(&out);
        }
        // (left-nested trees are cloned once per growth step: quadratic, so "ultra" stays below 2600 bytes)
        let cap = if ultra { 2600 } else if very_long { cfg.max_len * 12 } else { cfg.max_len };
        return (clip(long, cap), InputKind::Derived);
    }
    if mode == 0 {
        (clip(out, cfg.max_len), InputKind::Derived)
    } else {
        let m = mutate(&out, &tokens, src, alphabet);
        (clip(m, cfg.max_len), InputKind::Mutated)
    }
}
