//! C17 driver: links the shipped front end (peginator_codegen from the tree) and a generator built around the
//! regenerated front end (peginator_codegen_s2 = copy of codegen/ with generated.rs replaced by stage 2).
use serde_json::json;
use std::str::FromStr;

fn arg(args: &[String], name: &str) -> Option<String> {
    args.iter().position(|a| a == name).and_then(|i| args.get(i + 1).cloned())
}

fn main() {
    std::panic::set_hook(Box::new(|_| {}));
    let args: Vec<String> = std::env::args().collect();
    match args.get(1).map(|s| s.as_str()) {
        Some("stage3") => {
            use peginator_codegen_s2::{CodegenGrammar, CodegenSettings, Grammar};
            let text = std::fs::read_to_string(&args[2]).unwrap();
            let g = Grammar::from_str(&text).expect("stage-2 front end cannot read grammar.ebnf");
            print!("{}", g.generate_code(&CodegenSettings::default()).expect("stage-2 generator fails on grammar.ebnf"));
        }
        Some("diff") => {
            let seed: u64 = arg(&args, "--seed").map(|s| s.parse().unwrap()).unwrap_or(1);
            let cases: u64 = arg(&args, "--cases").map(|s| s.parse().unwrap()).unwrap_or(1000);
            let out = arg(&args, "--out").unwrap();
            let extra_dir = arg(&args, "--ebnf-dir");
            let mut evaluations = 0u64;
            let mut nontrivial = std::collections::BTreeSet::new();
            let mut classes = std::collections::BTreeMap::<String, u64>::new();
            let mut violations = vec![];
            let mut samples = vec![];
            let mut texts: Vec<(String, String)> = vec![];
            if let Some(d) = extra_dir {
                // every grammar file of the repository
                fn walk(p: &std::path::Path, out: &mut Vec<(String, String)>) {
                    if let Ok(rd) = std::fs::read_dir(p) {
                        for e in rd.flatten() {
                            let p = e.path();
                            if p.is_dir() {
                                if p.file_name().map_or(false, |n| n == "target" || n == ".git") {
                                    continue;
                                }
                                walk(&p, out);
                            } else if p.extension().map_or(false, |x| x == "ebnf" || x == "not_ebnf") {
                                if let Ok(t) = std::fs::read_to_string(&p) {
                                    out.push(("RepoFile".into(), t));
                                }
                            }
                        }
                    }
                }
                walk(std::path::Path::new(&d), &mut texts);
            }
            for k in 0..cases {
                let bytes = verif_core::plans::rng_bytes(seed, "C17", k, 700);
                let c = verif_core::texts::case(&bytes);
                texts.push((format!("{:?}", c.class), c.text));
            }
            for (class, text) in texts {
                let a = verif_core::util::catch(|| match peginator_codegen::Grammar::from_str(&text) {
                    Ok(g) => (true, format!("{:?}", g)),
                    Err(e) => (false, format!("{:?}", e)),
                });
                let b = verif_core::util::catch(|| match peginator_codegen_s2::Grammar::from_str(&text) {
                    Ok(g) => (true, format!("{:?}", g)),
                    Err(e) => (false, format!("{:?}", e)),
                });
                evaluations += 1;
                *classes.entry(class.clone()).or_insert(0) += 1;
                match (a, b) {
                    (Ok(a), Ok(b)) => {
                        if a != b {
                            violations.push(json!({"property": "C17", "kind": "differential", "signature": "differential", "text": text,
                                "message": "the shipped and the regenerated front end read a grammar text differently",
                                "expected": a.1.chars().take(600).collect::<String>(), "observed": b.1.chars().take(600).collect::<String>()}));
                            if violations.len() > 10 {
                                break;
                            }
                        } else {
                            let nt = (a.0 && a.1.matches("name:").count() >= 3) || (!a.0 && !a.1.contains("position: 0,"));
                            if nt {
                                nontrivial.insert(verif_core::util::fnv64(text.as_bytes()));
                                *classes.entry(if a.0 { "parsed_>=3_rules".to_string() } else { "error_beyond_0".to_string() }).or_insert(0) += 1;
                                if samples.len() < 6 && nontrivial.len() % 50 == 1 {
                                    samples.push(json!({"class": class, "text": text, "both": if a.0 { "same Grammar".to_string() } else { a.1.clone() }}));
                                }
                            }
                        }
                    }
                    _ => {
                        // a panic in either front end (not expected for from_str); C15's business, counted
                        *classes.entry("panic_in_front_end".to_string()).or_insert(0) += 1;
                    }
                }
            }
            let j = json!({"evaluations": evaluations, "distinct_nontrivial": nontrivial.len(), "classes": classes, "samples": samples, "violations": violations, "extra": {}});
            std::fs::write(out, serde_json::to_string(&j).unwrap()).unwrap();
        }
        _ => {
            eprintln!("usage: c17drv stage3 <grammar.ebnf> | diff --seed S --cases N --out F [--ebnf-dir D]");
            std::process::exit(2);
        }
    }
}
