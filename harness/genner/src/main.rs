//! genner: model grammars -> grammar text -> the tree's own peginator code generator -> batch crates.
mod glue;

use peginator_codegen::{CodegenGrammar, CodegenSettings, Grammar as PGrammar};
use serde::{Deserialize, Serialize};
use std::collections::BTreeMap;
use std::path::{Path, PathBuf};
use std::str::FromStr;
use verif_core::model::Grammar;
use verif_core::plans::{self, GrammarSpec};
use verif_core::{printer, shapes};

#[derive(Serialize, Deserialize)]
struct Failure {
    id: String,
    stage: String,
    message: String,
    text: String,
    spec: GrammarSpec,
}

fn write_if_changed(path: &Path, content: &str) {
    if let Ok(old) = std::fs::read_to_string(path) {
        if old == content {
            return;
        }
    }
    std::fs::write(path, content).unwrap();
}

pub fn compile_text(text: &str, derives: &[String], user_ctx: bool) -> Result<String, (String, String)> {
    let text = text.to_string();
    let derives = derives.to_vec();
    let r = verif_core::util::catch(move || {
        let g = match PGrammar::from_str(&text) {
            Ok(g) => g,
            Err(e) => return Err(("front".to_string(), format!("{:?}", e))),
        };
        let mut settings = CodegenSettings { derives, ..Default::default() };
        if user_ctx {
            settings.set_user_context_type("verif_core::hooks::Ctx");
        }
        match g.generate_code(&settings) {
            Ok(ts) => Ok(ts.to_string()),
            Err(e) => Err(("codegen_err".to_string(), format!("{:#}", e))),
        }
    });
    match r {
        Ok(x) => x,
        Err(p) => {
            let msg = if let Some(s) = p.downcast_ref::<String>() {
                s.clone()
            } else if let Some(s) = p.downcast_ref::<&str>() {
                s.to_string()
            } else {
                "panic".to_string()
            };
            Err(("codegen_panic".to_string(), msg))
        }
    }
}

/// identifiers `unsafe`, `static`, `thread_local` in generated code (string/char literals, lifetimes and raw
/// identifiers are not code keywords and are skipped)
pub fn scan_forbidden(code: &str) -> Vec<String> {
    let b: Vec<char> = code.chars().collect();
    let mut i = 0;
    let mut hits = vec![];
    while i < b.len() {
        let c = b[i];
        if c == '"' {
            i += 1;
            while i < b.len() && b[i] != '"' {
                if b[i] == '\\' {
                    i += 1;
                }
                i += 1;
            }
            i += 1;
        } else if c == '\'' {
            // char literal or lifetime
            if i + 2 < b.len() && b[i + 1] == '\\' {
                // escaped char literal: skip to closing quote
                i += 2;
                while i < b.len() && b[i] != '\'' {
                    i += 1;
                }
                i += 1;
            } else if i + 2 < b.len() && b[i + 2] == '\'' {
                i += 3;
            } else {
                // lifetime: skip the identifier
                i += 1;
                while i < b.len() && (b[i].is_alphanumeric() || b[i] == '_') {
                    i += 1;
                }
            }
        } else if c.is_alphabetic() || c == '_' {
            let start = i;
            while i < b.len() && (b[i].is_alphanumeric() || b[i] == '_') {
                i += 1;
            }
            let word: String = b[start..i].iter().collect();
            let raw = start >= 2 && b[start - 1] == '#' && b[start - 2] == 'r';
            if !raw && (word == "unsafe" || word == "static" || word == "thread_local") {
                hits.push(word);
            }
        } else {
            i += 1;
        }
    }
    hits
}

fn arg(args: &[String], name: &str) -> Option<String> {
    args.iter().position(|a| a == name).and_then(|i| args.get(i + 1).cloned())
}

/// child process: compiles grammar texts sent as JSON lines (a stack overflow of the tree's generator then kills
/// only the child, and the parent can attribute it to the grammar in flight)
fn worker() {
    use std::io::{BufRead, Write};
    let stdin = std::io::stdin();
    let mut out = std::io::stdout();
    for line in stdin.lock().lines().flatten() {
        let v: serde_json::Value = match serde_json::from_str(&line) {
            Ok(v) => v,
            Err(_) => continue,
        };
        let text = v["text"].as_str().unwrap_or("");
        let derives: Vec<String> = v["derives"].as_array().map(|a| a.iter().map(|x| x.as_str().unwrap_or("").to_string()).collect()).unwrap_or_default();
        let ctx = v["user_ctx"].as_bool().unwrap_or(false);
        let ans = match compile_text(text, &derives, ctx) {
            Ok(code) => serde_json::json!({"ok": true, "code": code}),
            Err((stage, msg)) => serde_json::json!({"ok": false, "stage": stage, "msg": msg}),
        };
        let _ = writeln!(out, "{}", ans);
        let _ = out.flush();
    }
}

pub struct Compiler {
    child: Option<(std::process::Child, std::process::ChildStdin, std::io::BufReader<std::process::ChildStdout>)>,
}

impl Compiler {
    pub fn new() -> Self {
        Compiler { child: None }
    }
    fn spawn(&mut self) {
        let exe = std::env::current_exe().unwrap();
        let mut c = std::process::Command::new(exe)
            .arg("worker")
            .stdin(std::process::Stdio::piped())
            .stdout(std::process::Stdio::piped())
            .stderr(std::process::Stdio::null())
            .spawn()
            .unwrap();
        let i = c.stdin.take().unwrap();
        let o = std::io::BufReader::new(c.stdout.take().unwrap());
        self.child = Some((c, i, o));
    }
    pub fn compile(&mut self, text: &str, derives: &[String], user_ctx: bool) -> Result<String, (String, String)> {
        use std::io::{BufRead, Write};
        if self.child.is_none() {
            self.spawn();
        }
        let line = serde_json::json!({"text": text, "derives": derives, "user_ctx": user_ctx}).to_string();
        let (_, i, o) = self.child.as_mut().unwrap();
        let mut ans = String::new();
        let ok = writeln!(i, "{}", line).is_ok() && i.flush().is_ok() && o.read_line(&mut ans).map(|n| n > 0).unwrap_or(false);
        if !ok {
            if let Some((mut c, _, _)) = self.child.take() {
                let _ = c.kill();
                let _ = c.wait();
            }
            return Err(("codegen_crash".into(), "the code generator process died (stack overflow / abort)".into()));
        }
        let v: serde_json::Value = serde_json::from_str(&ans).map_err(|e| ("codegen_crash".to_string(), e.to_string()))?;
        if v["ok"].as_bool() == Some(true) {
            Ok(v["code"].as_str().unwrap_or("").to_string())
        } else {
            Err((v["stage"].as_str().unwrap_or("").to_string(), v["msg"].as_str().unwrap_or("").to_string()))
        }
    }
}

impl Drop for Compiler {
    fn drop(&mut self) {
        if let Some((mut c, i, _)) = self.child.take() {
            drop(i);
            let _ = c.kill();
            let _ = c.wait();
        }
    }
}

fn main() {
    std::panic::set_hook(Box::new(|_| {}));
    let args: Vec<String> = std::env::args().collect();
    let cmd = args.get(1).map(|s| s.as_str()).unwrap_or("");
    match cmd {
        "worker" => worker(),
        "gen" => gen(&args),
        "one" => one(&args),
        "reduce" => reduce(&args),
        _ => {
            eprintln!("usage: genner gen --plan P --seed S --count N --out DIR [--crates K] [--tier quick|thorough] | genner one --spec file --out DIR");
            std::process::exit(2);
        }
    }
}

/// `text` as a raw Rust string literal; Rust source cannot hold a carriage return that is not followed by a line feed
/// inside a raw string ("bare CR not allowed in raw string"), so such a text is spelled as a cooked literal with `\r`
fn raw_literal(text: &str) -> String {
    let b = text.as_bytes();
    let bare_cr = (0..b.len()).any(|i| b[i] == b'\r' && b.get(i + 1) != Some(&b'\n'));
    if bare_cr {
        format!("{:?}", text)
    } else {
        format!("r################\"{}\"################", text)
    }
}

/// `text` as a cooked Rust string literal with some backslash-newline continuations at places where the character after
/// the continuation is not white space (so the value of the literal is exactly `text`)
fn cooked_with_continuations(text: &str, seed: u64) -> String {
    let mut out = String::from("\"");
    let chars: Vec<char> = text.chars().collect();
    let mut k = seed;
    for (i, c) in chars.iter().enumerate() {
        let esc: String = c.escape_debug().collect();
        out.push_str(&if *c == '\'' { "'".to_string() } else { esc });
        k = k.wrapping_mul(6364136223846793005).wrapping_add(1442695040888963407);
        let next_ok = chars.get(i + 1).map_or(false, |n| !n.is_whitespace());
        if next_ok && (k >> 33) % 7 == 0 {
            out.push_str("\\\n          ");
        }
    }
    out.push('"');
    out
}

/// Build batch crates for a list of specs.
fn build_batch(specs: Vec<GrammarSpec>, out: &Path, crates: usize, plan: &str, stats: serde_json::Value) {
    std::fs::create_dir_all(out).unwrap();
    let mut failures: Vec<Failure> = vec![];
    let mut entries: Vec<(GrammarSpec, String, String, String)> = vec![]; // spec, text, code, glue
    let mut scans: BTreeMap<String, Vec<String>> = BTreeMap::new();
    let mut compiler = Compiler::new();
    for mut spec in specs {
        let with_w = if spec.flags.no_wrappers { spec.model.clone() } else { verif_core::gen::with_wrappers(&spec.model) };
        // a third of the grammars reach the generator in a varied layout (escape forms, quote style, comments, redundant
        // parentheses, directive order): a pure function of the model, so replays print the same text
        let h = with_w.hash64();
        let has_latin1_class = with_w.rules.iter().any(|r| matches!(r, verif_core::model::RuleDef::CharClass(c) if printer::latin1_class(c)));
        let text = if h % 3 == 0 || has_latin1_class {
            let lb = verif_core::plans::rng_bytes(h, "batch-layout", 0, 600);
            let mut src = verif_core::util::Src::new(&lb);
            printer::print_with_stable(&with_w, &mut src, h % 2 == 0).0
        } else {
            printer::print_canonical(&with_w)
        };
        match compiler.compile(&text, &spec.cfg.derives, spec.cfg.user_ctx) {
            Err((stage, message)) => {
                failures.push(Failure { id: spec.id.clone(), stage, message, text, spec });
            }
            Ok(code) => {
                let sh = match shapes::shapes(&with_w) {
                    Ok(s) => s,
                    Err((r, e)) => {
                        failures.push(Failure {
                            id: spec.id.clone(),
                            stage: "oracle_shape".into(),
                            message: format!("static oracle rejects but peginator accepts: {r}: {e:?}"),
                            text,
                            spec,
                        });
                        continue;
                    }
                };
                let has_debug = spec.cfg.derives.iter().any(|d| d == "Debug") && !spec.flags.compile_only;
                let gl = glue::emit(&with_w, &sh, &glue::GlueCfg { has_debug, user_ctx: spec.cfg.user_ctx });
                // textual scan shared by C03/C20: no unsafe / static / thread_local in generated code
                let hits = scan_forbidden(&code);
                if !hits.is_empty() {
                    scans.insert(spec.id.clone(), hits);
                }
                spec.model = with_w;
                spec.exported = gl.exported.clone();
                let code = if spec.flags.via_macro {
                    // how the invoking source spells the grammar literal: raw string, cooked string with escapes, cooked string
                    // with backslash-newline continuations (Rust drops the line break AND the indentation that follows)
                    match h % 5 {
                        // not the macro at all but the documented build-script route: `Compile` writes header + prefix + code
                        // to a file and the user's crate pulls it in with include!() inside a module
                        4 => {
                            let inc_dir = out.join("inc");
                            std::fs::create_dir_all(&inc_dir).unwrap();
                            let src = inc_dir.join(format!("{}.ebnf", spec.id));
                            let dest = inc_dir.join(format!("{}.rs", spec.id));
                            let _ = std::fs::remove_file(&dest);
                            std::fs::write(&src, &text).unwrap();
                            let r = verif_core::util::catch(|| {
                                peginator_codegen::Compile::file(&src)
                                    .destination(&dest)
                                    .prefix("#[allow(unused_imports)]\nuse std::fmt as _vb_prefix_fmt;".to_string())
                                    .derives(spec.cfg.derives.clone())
                                    .run()
                            });
                            match r {
                                Ok(Ok(())) => format!("include!({:?});\n", dest.to_string_lossy()),
                                _ => format!("compile_error!(\"the build-script helper failed on a grammar the library accepts\");\n"),
                            }
                        }
                        0 => format!("peginator_macro::peginate!({});\n", raw_literal(&text)),
                        1 => format!("peginator_macro::peginate!({:?});\n", text),
                        2 => format!("peginator_macro::peginate!({});\n", cooked_with_continuations(&text, h)),
                        // the literal forwarded by a macro_rules! wrapper (it arrives inside an invisible group), with a
                        // trailing comma
                        _ => format!(
                            "macro_rules! vb_forward__ {{ ($g:literal) => {{ peginator_macro::peginate!($g); }}; }}\nvb_forward__!({});\n",
                            raw_literal(&text)
                        ),
                    }
                } else {
                    code
                };
                entries.push((spec, text, code, gl.code));
            }
        }
    }
    // distribute over crates
    let k = crates.max(1).min(entries.len().max(1));
    let mut per: Vec<Vec<usize>> = vec![vec![]; k];
    {
        // members of one group go to the same crate
        let mut slot: BTreeMap<String, usize> = BTreeMap::new();
        let mut next = 0usize;
        for (i, e) in entries.iter().enumerate() {
            let key = e.0.group.clone().unwrap_or_else(|| e.0.id.clone());
            let s = *slot.entry(key).or_insert_with(|| {
                let s = next % k;
                next += 1;
                s
            });
            per[s].push(i);
        }
    }
    let mut models = vec![];
    let existing: Vec<PathBuf> = std::fs::read_dir(out).unwrap().flatten().map(|e| e.path()).filter(|p| p.is_dir()).collect();
    let mut keep = vec![];
    for (ci, idxs) in per.iter().enumerate() {
        let cname = format!("vb_{}_{:02}", plan, ci);
        let cdir = out.join(&cname);
        keep.push(cdir.clone());
        std::fs::create_dir_all(cdir.join("src")).unwrap();
        write_if_changed(
            &cdir.join("Cargo.toml"),
            &format!(
                "[package]\nname = \"{cname}\"\nversion = \"0.1.0\"\nedition = \"{2}\"\n\n[dependencies]\nbatchrt = {{ path = \"../../../batchrt\" }}\nverif_core = {{ path = \"../../../core\" }}\npeginator = {{ path = \"{0}/runtime\" }}\n{1}",
                std::env::var("VERIF_REPO_PATH").unwrap_or_else(|_| "/repo".into()),
                if plan == "macro" { format!("peginator_macro = {{ path = \"{}/macro\" }}\n", std::env::var("VERIF_REPO_PATH").unwrap_or_else(|_| "/repo".into())) } else { String::new() },
                // compile-only plan (C03): every second crate is a 2024-edition crate (`gen` is a keyword there, other lints
                // and capture rules differ); everything else uses the repository's own edition
                std::env::var("VERIF_EDITION").unwrap_or_else(|_| if plan == "regress_c03" {
                    "2024".into()
                } else if plan == "types" {
                    // the edition of the crate that includes the generated code: 2021 (the repository's), 2024 (`gen` is a
                    // keyword, other capture rules), 2018 (closures capture whole variables)
                    ["2021", "2024", "2018"][ci % 3].into()
                } else {
                    "2021".into()
                })
            ),
        );
        let mut main = String::from("#![forbid(unsafe_code)]\n#![allow(warnings)]\n");
        let mut table = String::from("fn main() {\n    batchrt::main(&[\n");
        let mut wanted_files = vec!["main.rs".to_string()];
        for &i in idxs {
            let (spec, text, code, gl) = &entries[i];
            let id = &spec.id;
            write_if_changed(&cdir.join("src").join(format!("{id}.rs")), code);
            write_if_changed(&cdir.join("src").join(format!("{id}_glue.rs")), gl);
            wanted_files.push(format!("{id}.rs"));
            wanted_files.push(format!("{id}_glue.rs"));
            main.push_str(&format!(
                "pub mod {id} {{ include!(\"{id}.rs\"); pub mod glue {{ use super::*; include!(\"{id}_glue.rs\"); }} }}\n"
            ));
            table.push_str(&format!("        batchrt::GrammarEntry {{ id: {:?}, rules: {id}::glue::RULES }},\n", id));
            // public type declarations = everything before the private implementation module
            let types_part = code.split("mod peginator_generated").next().unwrap_or("");
            models.push(serde_json::json!({
                "id": id, "krate": cname, "text": text, "spec": spec,
                "types_hash": format!("{:016x}", verif_core::util::fnv64(types_part.as_bytes())),
                "types_text": if spec.group.is_some() && spec.profile == "include" { types_part } else { "" },
            }));
        }
        table.push_str("    ]);\n}\n");
        main.push_str(&table);
        write_if_changed(&cdir.join("src/main.rs"), &main);
        // remove stale files
        for e in std::fs::read_dir(cdir.join("src")).unwrap().flatten() {
            let n = e.file_name().to_string_lossy().to_string();
            if !wanted_files.contains(&n) {
                let _ = std::fs::remove_file(e.path());
            }
        }
    }
    for p in existing {
        // (inc/ holds the files written by the build-script helper for the include!() route)
        if !keep.contains(&p) && p.file_name().map_or(true, |n| n != "inc") {
            let _ = std::fs::remove_dir_all(p);
        }
    }
    std::fs::write(out.join("models.json"), serde_json::to_string(&models).unwrap()).unwrap();
    std::fs::write(out.join("failures.json"), serde_json::to_string_pretty(&failures).unwrap()).unwrap();
    std::fs::write(
        out.join("gen_stats.json"),
        serde_json::to_string_pretty(&serde_json::json!({"plan": plan, "grammars": models.len(), "failures": failures.len(),
            "crates": k, "scan_hits": scans, "plan_stats": stats}))
        .unwrap(),
    )
    .unwrap();
    println!("generated {} grammars in {} crates, {} failures", models.len(), k, failures.len());
}

fn gen(args: &[String]) {
    let plan = arg(args, "--plan").expect("--plan");
    let seed: u64 = arg(args, "--seed").map(|s| s.parse().unwrap()).unwrap_or(1);
    let count: usize = arg(args, "--count").map(|s| s.parse().unwrap()).unwrap_or(64);
    let out = PathBuf::from(arg(args, "--out").expect("--out"));
    let crates: usize = arg(args, "--crates").map(|s| s.parse().unwrap()).unwrap_or(16);
    let tier = arg(args, "--tier").unwrap_or_else(|| "quick".into());
    let wave: u64 = arg(args, "--wave").map(|s| s.parse().unwrap()).unwrap_or(0);
    let extra: Vec<GrammarSpec> = match arg(args, "--extra") {
        Some(f) => serde_json::from_str(&std::fs::read_to_string(f).unwrap()).unwrap(),
        None => vec![],
    };
    let (mut specs, stats) = plans::make(&plan, seed, count, &tier, wave);
    if let Some(dir) = arg(args, "--repo-grammars") {
        specs.extend(repo_grammars(&dir));
    }
    for (i, mut e) in extra.into_iter().enumerate() {
        e.id = format!("x{:04}", i);
        specs.push(e);
    }
    build_batch(specs, &out, crates, &plan, stats);
}

/// one grammar from a spec file (replay / shrinking)
fn one(args: &[String]) {
    let specf = arg(args, "--spec").expect("--spec");
    let out = PathBuf::from(arg(args, "--out").expect("--out"));
    let specs: Vec<GrammarSpec> = serde_json::from_str(&std::fs::read_to_string(specf).unwrap()).unwrap();
    let crates: usize = arg(args, "--crates").map(|s| s.parse().unwrap()).unwrap_or(16);
    let plan = arg(args, "--plan").unwrap_or_else(|| "replay".into());
    build_batch(specs, &out, crates, &plan, serde_json::json!({}));
}

#[allow(dead_code)]
fn unused(_: &Grammar) {}

/// one-step reductions of a failing grammar (written as specs; compiled by `genner one`)
fn reduce(args: &[String]) {
    let specf = arg(args, "--spec").expect("--spec");
    let rule = arg(args, "--rule").expect("--rule");
    let out = arg(args, "--out").expect("--out");
    let limit: usize = arg(args, "--limit").map(|s| s.parse().unwrap()).unwrap_or(120);
    let spec: GrammarSpec = serde_json::from_str(&std::fs::read_to_string(specf).unwrap()).unwrap();
    let mut outv = vec![];
    for (i, g) in verif_core::reduce::candidates(&spec.model, &rule, limit).into_iter().enumerate() {
        let mut s = spec.clone();
        s.id = format!("c{:04}", i);
        s.group = None;
        s.model = g;
        s.flags.no_wrappers = true;
        s.flags.constructive = None;
        outv.push(s);
    }
    std::fs::write(out, serde_json::to_string(&outv).unwrap()).unwrap();
    println!("{} candidates", outv.len());
}

/// the repository's own (human-written) test grammars as additional models: text -> front end -> lift.
/// Grammars that use crate-specific @check/@extern functions or fall outside the generator's preconditions are skipped.
fn repo_grammars(dir: &str) -> Vec<GrammarSpec> {
    fn walk(p: &Path, out: &mut Vec<PathBuf>) {
        if let Ok(rd) = std::fs::read_dir(p) {
            let mut es: Vec<PathBuf> = rd.flatten().map(|e| e.path()).collect();
            es.sort();
            for p in es {
                if p.is_dir() {
                    if p.file_name().map_or(false, |n| n == "target" || n == ".git") {
                        continue;
                    }
                    walk(&p, out);
                } else if p.extension().map_or(false, |x| x == "ebnf") && p.file_name().map_or(false, |n| n != "grammar.ebnf" || p.parent().map_or(false, |d| d.ends_with("src") == false)) {
                    out.push(p);
                }
            }
        }
    }
    let mut files = vec![];
    walk(Path::new(dir), &mut files);
    let mut out = vec![];
    for f in files {
        let text = match std::fs::read_to_string(&f) {
            Ok(t) => t,
            Err(_) => continue,
        };
        if text.contains("@check") || text.contains("@extern") {
            continue;
        }
        let parsed = match PGrammar::from_str(&text) {
            Ok(p) => p,
            Err(_) => continue,
        };
        let model = match front::c12::lift(&parsed) {
            Ok(m) => m.normalize(),
            Err(_) => continue,
        };
        // rule names W_* are reserved for the wrappers
        if model.rules.iter().any(|r| r.name().starts_with("W_")) {
            continue;
        }
        if verif_core::gen::validate(&model).is_err() {
            continue;
        }
        let name = f.parent().and_then(|p| p.file_name()).map(|n| n.to_string_lossy().to_string()).unwrap_or_default();
        let mut flags = plans::SpecFlags::default();
        flags.sentinel_allowed = true;
        out.push(GrammarSpec {
            id: format!("t{:04}", out.len()),
            group: None,
            role: format!("repository grammar {name}"),
            profile: "repo".into(),
            model,
            cfg: plans::SpecCfg::default(),
            flags,
            exported: vec![],
        });
    }
    out
}
