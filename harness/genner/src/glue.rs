//! Emits the glue module for one grammar from the MODEL (static oracle), never from peginator's output:
//! monomorphic entry points per exported rule and exact-type assertions.
use verif_core::model::*;
use verif_core::shapes::{field_type, rs_ident, Kind, Shapes};

pub struct GlueCfg {
    pub has_debug: bool,
    pub user_ctx: bool,
}

pub struct Glue {
    pub code: String,
    /// exported rules in table order
    pub exported: Vec<String>,
}

fn variant_assert(out: &mut String, enum_ty: &str, variants: &std::collections::BTreeMap<String, bool>) {
    out.push_str("    match v {\n");
    for (t, boxed) in variants {
        let tn = if t == "char" { "char".to_string() } else { rs_ident(t) };
        let inner = if *boxed { format!("Box<{tn}>") } else { tn };
        // (binding names that no rule can have: a unit struct named like a binding turns the pattern into a constant)
        out.push_str(&format!("        {}::{}(vb_x__) => {{ let _: &{} = vb_x__; }}\n", enum_ty, rs_ident(t), inner));
    }
    out.push_str("    }\n");
}

pub fn emit(g: &Grammar, sh: &Shapes, cfg: &GlueCfg) -> Glue {
    let mut out = String::new();
    out.push_str("// glue generated from the model\n");
    let mut n = 0usize;
    // ---- exact type assertions
    for r in &g.rules {
        let name = r.name();
        let ty = rs_ident(name);
        let kind = sh.kind(name).unwrap();
        out.push_str(&format!("#[allow(dead_code, unused_variables, non_snake_case)]\nfn _assert_{n}(v: &{ty}) {{\n"));
        match kind {
            Kind::Struct { fields, position } => {
                if fields.is_empty() && !*position {
                    out.push_str(&format!("    let {ty} = v;\n"));
                } else {
                    let mut pat = String::new();
                    for (i, f) in fields.iter().enumerate() {
                        pat.push_str(&format!("{}: f{}, ", rs_ident(&f.name), i));
                    }
                    if *position {
                        pat.push_str("position: pos__, ");
                    }
                    out.push_str(&format!("    let {ty} {{ {pat} }} = v;\n"));
                    for (i, f) in fields.iter().enumerate() {
                        out.push_str(&format!("    let _: &{} = f{};\n", field_type(name, f), i));
                    }
                    if *position {
                        out.push_str("    let _: &std::ops::Range<usize> = pos__;\n");
                    }
                }
            }
            Kind::StrPos => {
                out.push_str(&format!("    let {ty} {{ string: s__, position: pos__ }} = v;\n"));
                out.push_str("    let _: &String = s__;\n    let _: &std::ops::Range<usize> = pos__;\n");
            }
            Kind::Enum { variants, .. } => variant_assert(&mut out, &ty, variants),
            k => {
                let t = sh.alias_type(k).unwrap();
                out.push_str(&format!("    let _: &{t} = v;\n"));
            }
        }
        out.push_str("}\n");
        if let Some(t) = sh.alias_type(kind) {
            out.push_str(&format!("#[allow(dead_code)]\nfn _rev_{n}(v: &{t}) -> &{ty} {{ v }}\n"));
        }
        // generated field enums
        if let Kind::Struct { fields, .. } = kind {
            for f in fields {
                if f.types.len() > 1 {
                    let ety = rs_ident(&format!("{name}_{}", f.name));
                    out.push_str(&format!("#[allow(dead_code, unused_variables)]\nfn _assert_{n}_{}(v: &{ety}) {{\n", sanitize(&f.name)));
                    variant_assert(&mut out, &ety, &f.types);
                    out.push_str("}\n");
                }
            }
        }
        // PegPosition must be implemented exactly for @position rules
        if sh.has_position_impl(name) && !matches!(kind, Kind::Alias { .. }) {
            out.push_str(&format!(
                "#[allow(dead_code)]\nfn _pos_{n}(v: &{ty}) -> &std::ops::Range<usize> {{ peginator::PegPosition::position(v) }}\n"
            ));
        }
        n += 1;
    }
    // ---- entry points
    let mut exported = vec![];
    if cfg.has_debug {
        for r in g.normals() {
            if !r.export() {
                continue;
            }
            let idx = exported.len();
            let ty = rs_ident(&r.name);
            exported.push(r.name.clone());
            let mut tp = String::new();
            if sh.has_position_impl(&r.name) {
                tp.push_str("tp.push((String::new(), peginator::PegPosition::position(&v).clone()));\n");
            }
            if r.name.starts_with("W_") {
                // wrapper: also expose the inner value's trait position
                if let Some(Expr::Ref { typ, .. }) = Some(&r.body) {
                    if sh.has_position_impl(typ) {
                        tp.push_str("tp.push((\"v\".to_string(), peginator::PegPosition::position(&v.v).clone()));\n");
                    }
                }
            }
            if cfg.user_ctx {
                out.push_str(&format!(
                    "pub fn p_{idx}(s: &str, mode: u8, salt: u64) -> batchrt::Raw {{
    use peginator::{{PegParserAdvanced, ParseSettings, NoopTracer, IndentedTracer}};
    let mut ctx = verif_core::hooks::Ctx {{ salt, calls: vec![] }};
    let set = ParseSettings::default();
    let r = match mode {{
        0 => <{ty} as PegParserAdvanced<&mut verif_core::hooks::Ctx>>::parse_advanced::<NoopTracer>(s, &set, &mut ctx),
        1 => <{ty} as PegParserAdvanced<&mut verif_core::hooks::Ctx>>::parse_advanced::<IndentedTracer>(s, &set, &mut ctx),
        _ => <{ty} as PegParserAdvanced<&mut verif_core::hooks::Ctx>>::parse_advanced::<batchrt::RecTracer>(s, &set, &mut ctx),
    }};
    batchrt::push_ctx_calls(ctx.calls);
    batchrt::Raw::from_result(r.map(|v| {{ let mut tp: Vec<(String, std::ops::Range<usize>)> = vec![]; {tp} (format!(\"{{:?}}\", v), tp) }}))
}}\n"
                ));
            } else {
                out.push_str(&format!(
                    "pub fn p_{idx}(s: &str, mode: u8, _salt: u64) -> batchrt::Raw {{
    use peginator::{{PegParser, PegParserAdvanced, ParseSettings}};
    let r = match mode {{
        0 => <{ty} as PegParser>::parse(s),
        1 => <{ty} as PegParser>::parse_with_trace(s),
        _ => <{ty} as PegParserAdvanced<()>>::parse_advanced::<batchrt::RecTracer>(s, &ParseSettings::default(), ()),
    }};
    batchrt::Raw::from_result(r.map(|v| {{ let mut tp: Vec<(String, std::ops::Range<usize>)> = vec![]; {tp} (format!(\"{{:?}}\", v), tp) }}))
}}\n"
                ));
            }
        }
    }
    out.push_str("pub const RULES: &[batchrt::RuleEntry] = &[\n");
    for (i, r) in exported.iter().enumerate() {
        out.push_str(&format!("    batchrt::RuleEntry {{ rule: {:?}, parse: p_{} }},\n", r, i));
    }
    out.push_str("];\n");
    Glue { code: out, exported }
}

fn sanitize(s: &str) -> String {
    s.chars().map(|c| if c.is_alphanumeric() { c } else { '_' }).collect()
}
