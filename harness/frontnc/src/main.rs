//! C11 against `peginator` built with `default-features = false` (no `colored`): same generator, same oracle.
#[path = "../../front/src/c11.rs"]
mod c11;
#[path = "../../front/src/common.rs"]
mod common;

fn arg(args: &[String], name: &str) -> Option<String> {
    args.iter().position(|a| a == name).and_then(|i| args.get(i + 1).cloned())
}

fn main() {
    std::panic::set_hook(Box::new(|_| {}));
    let args: Vec<String> = std::env::args().collect();
    let seed: u64 = arg(&args, "--seed").and_then(|s| s.parse().ok()).unwrap_or(1);
    let cases: u32 = arg(&args, "--cases").and_then(|s| s.parse().ok()).unwrap_or(1000);
    match args.get(1).map(|s| s.as_str()) {
        Some("c11") => c11::run(seed, cases, &arg(&args, "--out").expect("--out")),
        Some("replay") => {
            let rec: serde_json::Value = serde_json::from_str(&std::fs::read_to_string(&args[2]).unwrap()).unwrap();
            match c11::replay(&rec) {
                Some(v) => {
                    println!("{}", v);
                    std::process::exit(1)
                }
                None => std::process::exit(0),
            }
        }
        _ => {
            eprintln!("usage: frontnc c11 --seed S --cases N --out FILE | frontnc replay FILE");
            std::process::exit(2);
        }
    }
}
