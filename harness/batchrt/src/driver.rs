//! Generic `main` of the batch crates.
use crate::props::{self, CaseOut, Failure, GCtx};
use crate::{GrammarEntry, RuleEntry};
use proptest::prelude::*;
use proptest::test_runner::{Config, RngAlgorithm, TestCaseError, TestError, TestRng, TestRunner};
use serde_json::json;
use std::cell::RefCell;
use std::collections::{BTreeMap, BTreeSet, HashMap};
use std::sync::atomic::{AtomicU64, Ordering};
use std::sync::{Arc, Mutex};
use verif_core::inputs::{self, InputCfg, WsMode};
use verif_core::plans::GrammarSpec;
use verif_core::util::{fnv64, hash_parts, seed_bytes};

#[derive(Default)]
pub struct Partial {
    pub evaluations: u64,
    pub nontrivial: BTreeSet<u64>,
    pub classes: BTreeMap<String, u64>,
    pub skipped: BTreeMap<String, u64>,
    pub input_kinds: BTreeMap<String, u64>,
    pub samples: Vec<serde_json::Value>,
    pub violations: Vec<serde_json::Value>,
    pub grammars: u64,
    pub rules: u64,
}

pub struct ModelEntry {
    pub text: String,
    pub spec: GrammarSpec,
    pub types_hash: String,
    pub types_text: String,
}

pub struct Args {
    pub models: String,
    pub prop: String,
    pub seed: u64,
    pub cases: u32,
    pub out: String,
    pub max_len: usize,
    pub replay: Option<String>,
    pub only_rule: Option<String>,
}

fn arg(args: &[String], name: &str) -> Option<String> {
    args.iter().position(|a| a == name).and_then(|i| args.get(i + 1).cloned())
}

/// (grammar id, rule, input) of the case in flight, for the watchdog
static CASE_STARTED_MS: AtomicU64 = AtomicU64::new(0);
static CASE_SEQ: AtomicU64 = AtomicU64::new(0);

pub fn now_ms() -> u64 {
    std::time::SystemTime::now().duration_since(std::time::UNIX_EPOCH).unwrap().as_millis() as u64
}

pub fn main(table: &[GrammarEntry]) {
    // panics inside parsers are caught and judged by the checks; their default message is noise. VERIF_PANIC_MSG=1 shows
    // them (harness debugging).
    if std::env::var("VERIF_PANIC_MSG").is_err() {
        std::panic::set_hook(Box::new(|_| {}));
    }
    let argv: Vec<String> = std::env::args().collect();
    let args = Args {
        models: arg(&argv, "--models").expect("--models"),
        prop: arg(&argv, "--prop").expect("--prop"),
        seed: arg(&argv, "--seed").map(|s| s.parse().unwrap()).unwrap_or(1),
        cases: arg(&argv, "--cases").map(|s| s.parse().unwrap()).unwrap_or(200),
        out: arg(&argv, "--out").expect("--out"),
        max_len: arg(&argv, "--max-len").map(|s| s.parse().unwrap()).unwrap_or(64),
        replay: arg(&argv, "--replay"),
        only_rule: arg(&argv, "--only-rule"),
    };
    let models: Vec<serde_json::Value> = serde_json::from_str(&std::fs::read_to_string(&args.models).expect("models.json")).unwrap();
    let mut by_id: HashMap<String, ModelEntry> = HashMap::new();
    for m in models {
        let id = m["id"].as_str().unwrap().to_string();
        let text = m["text"].as_str().unwrap().to_string();
        let spec: GrammarSpec = serde_json::from_value(m["spec"].clone()).unwrap();
        let types_hash = m["types_hash"].as_str().unwrap_or("").to_string();
        let types_text = m["types_text"].as_str().unwrap_or("").to_string();
        by_id.insert(id, ModelEntry { text, spec, types_hash, types_text });
    }
    let current: Arc<Mutex<Option<serde_json::Value>>> = Arc::new(Mutex::new(None));
    // watchdog: a single case normally takes microseconds; 90 s without progress is reported as a hang (exit 3: the run is inconclusive, never a violation)
    {
        let current = current.clone();
        let out = args.out.clone();
        std::thread::spawn(move || {
            let mut last_seq = u64::MAX;
            let mut since = now_ms();
            loop {
                std::thread::sleep(std::time::Duration::from_millis(250));
                let seq = CASE_SEQ.load(Ordering::Relaxed);
                if seq != last_seq {
                    last_seq = seq;
                    since = now_ms();
                } else if CASE_STARTED_MS.load(Ordering::Relaxed) != 0 && now_ms() - since > 90_000 {
                    let cur = current.lock().unwrap().clone();
                    let _ = std::fs::write(format!("{out}.hang"), serde_json::to_string(&json!({"hang": cur})).unwrap());
                    std::process::exit(3);
                }
            }
        });
    }
    // user functions may run a nested parse: any rule of any grammar of this crate
    // (only rules on which the reference evaluation of every nested text terminates quickly: a stack overflow of a
    // nested parse could not be caught)
    let mut nested: Vec<fn(&str, u8, u64) -> crate::Raw> = vec![];
    for g in table.iter() {
        if let Some(ctx) = by_id.get(g.id).and_then(|me| GCtx::new(g.id, &me.text, &me.spec).ok()) {
            for r in g.rules.iter() {
                let safe = crate::NESTED_TEXTS.iter().all(|t| {
                    let o = verif_core::interp::run(&ctx.model, &ctx.shapes, r.rule, t, verif_core::interp::Cfg { fuel: 5_000, ..Default::default() });
                    !o.diverged
                });
                if safe && nested.len() < 64 {
                    nested.push(r.parse);
                }
            }
        }
    }
    let _ = crate::NESTED_TARGETS.set(nested);
    // entries: leak a static copy of the table description so the worker thread can own it
    let table_ref: &'static [GrammarEntry] = unsafe_static(table);
    let args = Arc::new(args);
    let by_id = Arc::new(by_id);
    let a2 = args.clone();
    let cur2 = current.clone();
    let handle = std::thread::Builder::new()
        .stack_size(1 << 30)
        .spawn(move || run(table_ref, &a2, &by_id, cur2))
        .unwrap();
    let partial = handle.join().unwrap_or_else(|_| {
        eprintln!("batch worker panicked");
        std::process::exit(2);
    });
    let nontrivial: Vec<String> = partial.nontrivial.iter().map(|h| format!("{:016x}", h)).collect();
    let j = json!({
        "evaluations": partial.evaluations,
        "nontrivial": nontrivial,
        "classes": partial.classes,
        "skipped": partial.skipped,
        "input_kinds": partial.input_kinds,
        "samples": partial.samples,
        "violations": partial.violations,
        "grammars": partial.grammars,
        "rules": partial.rules,
    });
    std::fs::write(&args.out, serde_json::to_string(&j).unwrap()).unwrap();
}

fn unsafe_static(table: &[GrammarEntry]) -> &'static [GrammarEntry] {
    // the table lives in `main`'s frame for the whole process lifetime; rebuild an owned leaked copy
    let v: Vec<GrammarEntry> = table.iter().map(|g| GrammarEntry { id: g.id, rules: g.rules }).collect();
    Box::leak(v.into_boxed_slice())
}

pub fn input_cfg(prop: &str, max_len: usize) -> InputCfg {
    InputCfg { max_len, ws: if prop == "C08" { WsMode::Heavy } else { WsMode::Light }, max_depth: 7 }
}

pub fn input_cfg_for(prop: &str, max_len: usize, g: &GCtx) -> InputCfg {
    let heavy = prop == "C08" || g.spec.profile == "memows";
    InputCfg { max_len, ws: if heavy { WsMode::Heavy } else { WsMode::Light }, max_depth: 7 }
}

pub struct CaseRunner<'a> {
    pub prop: &'a str,
    pub seed: u64,
    pub cases: u32,
    pub max_len: usize,
    pub current: Arc<Mutex<Option<serde_json::Value>>>,
}

fn begin_case(current: &Arc<Mutex<Option<serde_json::Value>>>, gid: &str, rule: &str, input: &str) {
    *current.lock().unwrap() = Some(json!({"grammar": gid, "rule": rule, "input": input}));
    // harness debugging: VERIF_MARK=<file> keeps the case in flight on disk (a process killed by a stack overflow cannot
    // report it any more)
    if let Ok(p) = std::env::var("VERIF_MARK") {
        let _ = std::fs::write(p, serde_json::to_string(&json!({"grammar": gid, "rule": rule, "input": input})).unwrap());
    }
    CASE_STARTED_MS.store(now_ms(), Ordering::Relaxed);
    CASE_SEQ.fetch_add(1, Ordering::Relaxed);
}

pub fn violation_json(prop: &str, g: &GCtx, rule: &str, input: &str, f: &Failure) -> serde_json::Value {
    json!({
        "property": prop,
        "kind": "case",
        "grammar_id": g.id,
        "grammar_text": g.text,
        "spec": g.spec,
        "rule": rule,
        "input": input,
        "message": f.msg,
        "expected": f.expected,
        "observed": f.observed,
    })
}

/// run the generated-input loop for one (grammar, rule)
pub fn run_rule(cr: &CaseRunner, g: &GCtx, e: &RuleEntry, partial: &mut Partial) {
    let prop = cr.prop;
    run_loop(cr, g, e.rule, cr.cases, partial, &mut |input| props::check_case(prop, g, e, input), &mut |input, f| violation_json(prop, g, e.rule, input, f));
}

/// generic generated-input loop: inputs are built from `g`'s model for `rule`; `check` decides a case
pub fn run_loop(
    cr: &CaseRunner,
    g: &GCtx,
    rule: &str,
    cases: u32,
    partial: &mut Partial,
    check: &mut dyn FnMut(&str) -> Result<CaseOut, Failure>,
    to_violation: &mut dyn FnMut(&str, &Failure) -> serde_json::Value,
) {
    let prop = cr.prop;
    let cfg = input_cfg_for(prop, cr.max_len, g);
    let seed = seed_bytes(cr.seed, g.ghash, fnv64(rule.as_bytes()) ^ fnv64(prop.as_bytes()));
    let mut runner = TestRunner::new_with_rng(
        Config { cases, failure_persistence: None, max_shrink_iters: 800, max_global_rejects: 10, ..Config::default() },
        TestRng::from_seed(RngAlgorithm::ChaCha, &seed),
    );
    let strat = proptest::collection::vec(any::<u8>(), 0..160);
    let failed = RefCell::new(false);
    let stats = RefCell::new((0u64, BTreeSet::<u64>::new(), BTreeMap::<String, u64>::new(), BTreeMap::<String, u64>::new(), BTreeMap::<String, u64>::new(), Vec::<serde_json::Value>::new()));
    let last_failure: RefCell<Option<(String, Failure)>> = RefCell::new(None);
    let want_samples = partial.samples.len() < 6;
    let check = RefCell::new(check);
    let result = runner.run(&strat, |bytes| {
        let (input, kind) = inputs::build_input(&g.model, rule, &bytes, &cfg, &g.alphabet);
        begin_case(&cr.current, &g.id, rule, &input);
        let r = (check.borrow_mut())(&input);
        match r {
            Ok(out) => {
                if !*failed.borrow() {
                    let mut s = stats.borrow_mut();
                    s.0 += 1;
                    *s.4.entry(format!("{:?}", kind)).or_insert(0) += 1;
                    record(&mut s, g, rule, &input, &out, want_samples);
                }
                Ok(())
            }
            Err(f) => {
                *failed.borrow_mut() = true;
                let msg = f.msg.clone();
                *last_failure.borrow_mut() = Some((input, f));
                Err(TestCaseError::fail(msg))
            }
        }
    });
    CASE_STARTED_MS.store(0, Ordering::Relaxed);
    let s = stats.into_inner();
    partial.evaluations += s.0;
    partial.nontrivial.extend(s.1);
    for (k, v) in s.2 {
        *partial.classes.entry(k).or_insert(0) += v;
    }
    for (k, v) in s.3 {
        *partial.skipped.entry(k).or_insert(0) += v;
    }
    for (k, v) in s.4 {
        *partial.input_kinds.entry(k).or_insert(0) += v;
    }
    partial.samples.extend(s.5);
    partial.rules += 1;
    if let Err(TestError::Fail(_, bytes)) = result {
        // re-evaluate the minimal case to get its failure record
        let (input, _) = inputs::build_input(&g.model, rule, &bytes, &cfg, &g.alphabet);
        let mut check = check.into_inner();
        let f = match check(&input) {
            Err(f) => f,
            Ok(_) => last_failure.into_inner().map(|x| x.1).unwrap_or(Failure { msg: "failure did not reproduce".into(), expected: String::new(), observed: String::new() }),
        };
        partial.violations.push(to_violation(&input, &f));
    }
}

fn record(
    s: &mut (u64, BTreeSet<u64>, BTreeMap<String, u64>, BTreeMap<String, u64>, BTreeMap<String, u64>, Vec<serde_json::Value>),
    g: &GCtx,
    rule: &str,
    input: &str,
    out: &CaseOut,
    want_samples: bool,
) {
    for c in &out.classes {
        *s.2.entry(c.to_string()).or_insert(0) += 1;
    }
    if let Some(k) = out.skipped {
        let n = s.3.entry(k.to_string()).or_insert(0);
        *n += 1;
        if *n == 1 && k == "oracle_diverged" {
            s.5.push(json!({"skipped": k, "grammar": g.text, "rule": rule, "input": input}));
        }
    }
    if out.nontrivial {
        let key = hash_parts(&[&g.ghash.to_le_bytes(), rule.as_bytes(), input.as_bytes()]);
        let new = s.1.insert(key);
        if new && want_samples && s.5.len() < 2 {
            s.5.push(json!({"grammar": g.text, "rule": rule, "input": input, "classes": out.classes}));
        }
    }
}

fn run(table: &'static [GrammarEntry], args: &Args, by_id: &HashMap<String, ModelEntry>, current: Arc<Mutex<Option<serde_json::Value>>>) -> Partial {
    let mut partial = Partial::default();
    let cr = CaseRunner { prop: &args.prop, seed: args.seed, cases: args.cases, max_len: args.max_len, current: current.clone() };
    // replay mode: one recorded case
    if let Some(rf) = &args.replay {
        let rec: serde_json::Value = serde_json::from_str(&std::fs::read_to_string(rf).unwrap()).unwrap();
        crate::special::replay(table, by_id, &rec, &cr, &mut partial);
        return partial;
    }
    let mut ctxs: Vec<(usize, GCtx)> = vec![];
    for (ti, ge) in table.iter().enumerate() {
        let me = match by_id.get(ge.id) {
            Some(x) => x,
            None => continue,
        };
        match GCtx::new(ge.id, &me.text, &me.spec) {
            Ok(mut g) => {
                g.types_hash = me.types_hash.clone();
                g.types_text = me.types_text.clone();
                ctxs.push((ti, g))
            }
            Err(_) => {
                *partial.skipped.entry("oracle_shape_error".into()).or_insert(0) += 1;
            }
        }
    }
    partial.grammars = ctxs.len() as u64;
    match args.prop.as_str() {
        "C05" | "C06" | "C07" | "C13" | "C16" | "C20" => crate::special::run(table, &ctxs, &cr, &mut partial),
        _ => {
            'all: for (ti, g) in &ctxs {
                for e in table[*ti].rules {
                    if args.only_rule.as_deref().map_or(false, |r| r != e.rule) {
                        continue;
                    }
                    run_rule(&cr, g, e, &mut partial);
                    // a systemic defect fails everywhere: a few shrunk cases per process are enough
                    if partial.violations.len() >= 3 {
                        *partial.skipped.entry("stopped_after_3_violations".into()).or_insert(0) += 1;
                        break 'all;
                    }
                }
            }
        }
    }
    partial
}
