//! Runtime of the generated batch crates: observes compiled parsers, compares them with the
//! reference interpreter and checks the per-property relations (DESIGN.md §4).
pub mod driver;
pub mod props;
pub mod special;

use peginator::{ParseError, ParseResult, ParseState, ParseTracer};
use std::cell::{Cell, RefCell};
use verif_core::hooks::HookCall;

pub struct Raw {
    pub ok: bool,
    pub debug: String,
    pub err_pos: usize,
    pub err_spec: String,
    pub trait_pos: Vec<(String, (usize, usize))>,
}

impl Raw {
    pub fn from_result(r: Result<(String, Vec<(String, std::ops::Range<usize>)>), ParseError>) -> Raw {
        match r {
            Ok((debug, tp)) => Raw {
                ok: true,
                debug,
                err_pos: 0,
                err_spec: String::new(),
                trait_pos: tp.into_iter().map(|(p, r)| (p, (r.start, r.end))).collect(),
            },
            Err(e) => Raw { ok: false, debug: String::new(), err_pos: e.position, err_spec: format!("{:?}", e.specifics), trait_pos: vec![] },
        }
    }
}

pub struct RuleEntry {
    pub rule: &'static str,
    pub parse: fn(&str, u8, u64) -> Raw,
}

pub struct GrammarEntry {
    pub id: &'static str,
    pub rules: &'static [RuleEntry],
}

#[derive(Debug, Clone, PartialEq, Eq)]
pub enum TEv {
    Start { rule: String, pos: usize, depth: usize },
    Result { ok: bool, depth: usize },
    Info { msg: String, depth: usize },
}

thread_local! {
    static TRACE: RefCell<Vec<TEv>> = RefCell::new(Vec::new());
    static INPUT_LEN: Cell<usize> = Cell::new(0);
    static CTX_CALLS: RefCell<Vec<HookCall>> = RefCell::new(Vec::new());
    static FUEL: Cell<usize> = Cell::new(0);
    static FUEL_LIMIT: Cell<usize> = Cell::new(FUEL_DEFAULT);
}

/// default tracer event budget per parse; checks that have run the oracle first lower it to a multiple of the
/// oracle's own rule-call count (`set_fuel_from_oracle`), so non-termination is detected quickly but never
/// on a parse the oracle finished
pub const FUEL_DEFAULT: usize = 400_000;

pub fn set_fuel(n: usize) {
    FUEL_LIMIT.with(|f| f.set(n));
    DEPTH_LIMIT.with(|d| d.set(MAX_TRACE_DEPTH));
}

pub fn set_fuel_from_oracle(rule_calls: usize) {
    set_fuel(rule_calls.saturating_mul(8) + 4_000);
    // every rule entry is a rule call, so the nesting depth of a terminating parse is bounded the same way; a fixed depth
    // (4000 once) is wrong for long inputs: `X = @:Xi | @:char X` nests one level per input character
    DEPTH_LIMIT.with(|d| d.set(rule_calls.saturating_mul(2) + MAX_TRACE_DEPTH));
}
/// nesting bound when no oracle count is known (the stacks are 1 GB)
pub const MAX_TRACE_DEPTH: usize = 4000;
thread_local! {
    static DEPTH_LIMIT: Cell<usize> = Cell::new(MAX_TRACE_DEPTH);
}

pub fn push_ctx_calls(v: Vec<HookCall>) {
    CTX_CALLS.with(|c| c.borrow_mut().extend(v));
}

/// Recording tracer. Zero knowledge about the grammar; keeps its own depth counter inside the
/// tracer value (so a copied tracer shows up as a depth mismatch) and logs into a thread-local.
#[derive(Clone, Copy)]
pub struct RecTracer {
    depth: usize,
}

fn push_ev(e: TEv) {
    FUEL.with(|f| {
        let n = f.get() + 1;
        f.set(n);
        if n > FUEL_LIMIT.with(|l| l.get()) {
            panic!("VERIF_FUEL: tracer event budget exceeded");
        }
    });
    TRACE.with(|t| t.borrow_mut().push(e));
}

impl ParseTracer for RecTracer {
    fn print_informative(&mut self, s: &str) {
        push_ev(TEv::Info { msg: s.to_string(), depth: self.depth });
    }
    fn print_trace_start(&mut self, state: &ParseState, name: &str) {
        let len = INPUT_LEN.with(|l| l.get());
        let pos = len.wrapping_sub(state.s().len());
        push_ev(TEv::Start { rule: name.to_string(), pos, depth: self.depth });
        self.depth += 1;
        if self.depth > DEPTH_LIMIT.with(|d| d.get()) {
            panic!("VERIF_DEPTH: rule nesting depth exceeded");
        }
    }
    fn print_trace_result<T>(&mut self, result: &ParseResult<T>) {
        // saturating: an underflow is reported by the balance check, not by a panic of ours
        self.depth = self.depth.saturating_sub(1);
        push_ev(TEv::Result { ok: result.is_ok(), depth: self.depth });
    }
    fn new() -> Self {
        RecTracer { depth: 0 }
    }
}

#[derive(Debug, Clone)]
pub struct Obs {
    pub ok: bool,
    pub debug: String,
    pub err_pos: usize,
    pub err_spec: String,
    pub trait_pos: Vec<(String, (usize, usize))>,
    pub hooks: Vec<HookCall>,
    pub ctx_calls: Vec<HookCall>,
    pub trace: Vec<TEv>,
    pub panic: Option<String>,
}

impl Obs {
    pub fn result_key(&self) -> (bool, &str, usize, &str, bool) {
        (self.ok, &self.debug, self.err_pos, &self.err_spec, self.panic.is_some())
    }
    pub fn summary(&self) -> String {
        if let Some(p) = &self.panic {
            format!("PANIC({})", p)
        } else if self.ok {
            format!("Ok({})", self.debug)
        } else {
            format!("Err(pos={}, {})", self.err_pos, self.err_spec)
        }
    }
}

const EMBED_PREFIX: &str = "§a(";
thread_local! {
    static EMBED: RefCell<String> = RefCell::new(String::with_capacity(64 * 1024));
}

/// parse functions a user function may call for its nested parse (set once by the driver)
pub static NESTED_TARGETS: std::sync::OnceLock<Vec<fn(&str, u8, u64) -> Raw>> = std::sync::OnceLock::new();
thread_local! {
    static NESTED_COUNT: Cell<usize> = Cell::new(0);
}
pub fn nested_parses_done() -> usize {
    NESTED_COUNT.with(|c| c.get())
}
pub const NESTED_TEXTS: &[&str] = &["", "a", "a b", "(a)", "b+b", "é x", "  zz"];
fn nested_parse() {
    let Some(targets) = NESTED_TARGETS.get() else { return };
    if targets.is_empty() {
        return;
    }
    let k = NESTED_COUNT.with(|c| {
        c.set(c.get() + 1);
        c.get()
    });
    let parse = targets[k % targets.len()];
    let text = NESTED_TEXTS[k % NESTED_TEXTS.len()];
    let keep = CTX_CALLS.with(|c| c.borrow().len());
    let _ = verif_core::util::catch(|| parse(text, MODE_PLAIN, 0));
    CTX_CALLS.with(|c| c.borrow_mut().truncate(keep));
}

pub const MODE_PLAIN: u8 = 0;
pub const MODE_INDENTED: u8 = 1;
pub const MODE_REC: u8 = 2;

pub fn observe(parse: fn(&str, u8, u64) -> Raw, input: &str, mode: u8, salt: u64) -> Obs {
    verif_core::hooks::clear_log();
    TRACE.with(|t| t.borrow_mut().clear());
    CTX_CALLS.with(|c| c.borrow_mut().clear());
    FUEL.with(|f| f.set(0));
    INPUT_LEN.with(|l| l.set(input.len()));
    verif_core::hooks::set_panic_mode(salt == verif_core::hooks::PANIC_SALT);
    // for half of the plain parses every user function first runs another, complete parse (of another rule, on another
    // text) before it answers: a parse nested inside the parse in progress must not disturb it
    verif_core::hooks::set_nested(if mode == MODE_PLAIN && input.len() % 2 == 1 { Some(nested_parse as fn()) } else { None });
    // the plain mode parses a slice from the MIDDLE of a larger, reused buffer: text that is not the input lies directly
    // before and behind it (a continuation that looks like more input), and successive inputs share their address
    let r = if mode == MODE_PLAIN {
        EMBED.with(|b| {
            let mut b = b.borrow_mut();
            b.clear();
            b.push_str(EMBED_PREFIX);
            b.push_str(input);
            let mut k = input.len().min(48);
            while !input.is_char_boundary(k) {
                k -= 1;
            }
            b.push_str(&input[..k]);
            b.push_str(input);
            b.push('§');
            let slice = &b[EMBED_PREFIX.len()..EMBED_PREFIX.len() + input.len()];
            verif_core::util::catch(|| parse(slice, mode, salt))
        })
    } else {
        verif_core::util::catch(|| parse(input, mode, salt))
    };
    verif_core::hooks::set_panic_mode(false);
    verif_core::hooks::set_nested(None);
    let hooks = verif_core::hooks::drain_log();
    let trace = TRACE.with(|t| std::mem::take(&mut *t.borrow_mut()));
    let ctx_calls = CTX_CALLS.with(|c| std::mem::take(&mut *c.borrow_mut()));
    match r {
        Ok(raw) => Obs {
            ok: raw.ok,
            debug: raw.debug,
            err_pos: raw.err_pos,
            err_spec: raw.err_spec,
            trait_pos: raw.trait_pos,
            hooks,
            ctx_calls,
            trace,
            panic: None,
        },
        Err(p) => {
            let msg = if let Some(s) = p.downcast_ref::<String>() {
                s.clone()
            } else if let Some(s) = p.downcast_ref::<&str>() {
                s.to_string()
            } else {
                "panic (non-string payload)".to_string()
            };
            Obs { ok: false, debug: String::new(), err_pos: 0, err_spec: String::new(), trait_pos: vec![], hooks, ctx_calls, trace, panic: Some(msg) }
        }
    }
}

pub fn main(table: &[GrammarEntry]) {
    driver::main(table)
}
