//! Group / history / schedule relations (C05, C06, C07, C13, C20) and replay.
use crate::driver::{run_loop, violation_json, CaseRunner, ModelEntry, Partial};
use crate::props::{self, oracle, oracle_summary, CaseOut, Failure, GCtx};
use crate::{observe, GrammarEntry, Obs, RuleEntry, TEv, MODE_PLAIN, MODE_REC};
use proptest::prelude::*;
use proptest::test_runner::{Config, RngAlgorithm, TestCaseError, TestError, TestRng, TestRunner};
use serde_json::json;
use std::cell::{Cell, RefCell};
use std::collections::{BTreeMap, HashMap};
use verif_core::inputs;
use verif_core::interp;
use verif_core::util::{fnv64, hash_parts, seed_bytes, Src};

fn fail(msg: impl Into<String>, expected: impl Into<String>, observed: impl Into<String>) -> Failure {
    Failure { msg: msg.into(), expected: expected.into(), observed: observed.into() }
}

fn find_rule<'a>(table: &'static [GrammarEntry], ti: usize, rule: &str) -> Option<&'a RuleEntry> {
    table[ti].rules.iter().find(|e| e.rule == rule)
}

fn is_fuel(o: &Obs) -> bool {
    o.panic.as_deref().map_or(false, |p| p.starts_with("VERIF_FUEL") || p.starts_with("VERIF_DEPTH"))
}

fn groups<'a>(ctxs: &'a [(usize, GCtx)]) -> BTreeMap<String, Vec<&'a (usize, GCtx)>> {
    let mut m: BTreeMap<String, Vec<&(usize, GCtx)>> = BTreeMap::new();
    for c in ctxs {
        let key = c.1.spec.group.clone().unwrap_or_else(|| c.1.id.clone());
        m.entry(key).or_default().push(c);
    }
    m
}

pub fn run(table: &'static [GrammarEntry], ctxs: &[(usize, GCtx)], cr: &CaseRunner, partial: &mut Partial) {
    match cr.prop {
        "C05" => run_c05(table, ctxs, cr, partial),
        "C06" => run_c06(table, ctxs, cr, partial),
        "C07" => run_c07(table, ctxs, cr, partial),
        "C13" => run_c13(table, ctxs, cr, partial),
        "C20" => run_c20(table, ctxs, cr, partial),
        "C16" => run_c16(table, ctxs, cr, partial),
        _ => unreachable!(),
    }
}

// ------------------------------------------------------------------------------------------------
// C05: @memoize never changes results; histories
// ------------------------------------------------------------------------------------------------
fn group_violation(prop: &str, members: &[&(usize, GCtx)], rule: &str, input: &str, f: &Failure) -> serde_json::Value {
    json!({
        "property": prop,
        "kind": "group",
        "group": members.iter().map(|m| json!({"id": m.1.id, "role": m.1.spec.role, "grammar_text": m.1.text, "spec": m.1.spec})).collect::<Vec<_>>(),
        "grammar_text": members[0].1.text,
        "rule": rule,
        "input": input,
        "message": f.msg,
        "expected": f.expected,
        "observed": f.observed,
    })
}

fn c05_case(table: &'static [GrammarEntry], members: &[&(usize, GCtx)], rule: &str, input: &str) -> Result<CaseOut, Failure> {
    let base = &members[0].1;
    let o = oracle(base, rule, input, 0);
    let mut out = CaseOut::default();
    if o.diverged {
        out.skipped = Some("oracle_diverged");
        return Ok(out);
    }
    let mut first: Option<(String, Obs)> = None;
    for m in members {
        let e = match find_rule(table, m.0, rule) {
            Some(e) => e,
            None => continue,
        };
        let obs = observe(e.parse, input, MODE_PLAIN, 0);
        if let Some(p) = &obs.panic {
            return Err(fail(format!("variant '{}' panicked on {:?}: {p}", m.1.spec.role, input), oracle_summary(&o), obs.summary()));
        }
        if let Some((role0, f)) = &first {
            if f.ok != obs.ok || f.debug != obs.debug {
                return Err(fail(
                    format!("@memoize changes the result: variant '{}' vs '{}' for rule {} on {:?}", role0, m.1.spec.role, rule, input),
                    f.summary(),
                    obs.summary(),
                ));
            }
        }
        if obs.ok != o.ok || (obs.ok && obs.debug != o.value) {
            return Err(fail(format!("variant '{}' differs from the PEG result for rule {} on {:?}", m.1.spec.role, rule, input), oracle_summary(&o), obs.summary()));
        }
        if first.is_none() {
            first = Some((m.1.spec.role.clone(), obs));
        }
    }
    // non-triviality: some memoized (rule, offset) of the all-memoized variant is evaluated >= 2 times
    if let Some(all) = members.iter().find(|m| m.1.spec.role == "all") {
        let oa = oracle(&all.1, rule, input, 0);
        if oa.stats.memo_revisits > 0 {
            out.nontrivial = true;
            out.classes.push("memo_revisit");
        }
        if oa.stats.memo_revisit_first_failed > 0 {
            out.classes.push("memo_revisit_after_failure");
        }
    }
    out.classes.push(if o.ok { "accept" } else { "reject" });
    Ok(out)
}

/// history strategy: a list of inputs (choice bytes) and an order with repetitions
fn history_strategy(max_inputs: usize) -> impl Strategy<Value = (Vec<Vec<u8>>, Vec<u16>)> {
    (proptest::collection::vec(proptest::collection::vec(any::<u8>(), 0..100), 3..max_inputs), proptest::collection::vec(any::<u16>(), 4..(max_inputs * 2)))
}

/// one history: first-time results of every input (separate strings), then the generated order of re-parses out of one
/// reused buffer, some through parse_with_trace, some preceded by a traced parse that a panicking user function aborts
fn history_steps(g: &GCtx, e: &RuleEntry, ins: &[String], order: &[u16]) -> Result<usize, Failure> {
    let reference: Vec<Obs> = ins.iter().map(|i| observe(e.parse, i, MODE_PLAIN, 0)).collect();
    // the history is parsed out of ONE reused buffer (a REPL / line reader does that): successive inputs then share their
    // address, and equal-length ones their whole address range
    let mut buf = String::with_capacity(inputs::PUMP_MAX_LEN + 64);
    let mut aborted = 0;
    for (step, ix) in order.iter().enumerate() {
        let k = ((*ix as usize) * ins.len()) >> 16;
        buf.clear();
        buf.push_str(&ins[k]);
        if ix % 7 == 3 {
            // a traced parse aborted by a panic in a user function (caught by the application): later parses must not
            // notice it
            let o = observe(e.parse, &buf, crate::MODE_INDENTED, verif_core::hooks::PANIC_SALT);
            if o.panic.is_some() {
                aborted += 1;
            }
        }
        // every fifth step through parse_with_trace: the same result
        let mode = if ix % 5 == 0 { crate::MODE_INDENTED } else { MODE_PLAIN };
        let obs = observe(e.parse, &buf, mode, 0);
        if obs.result_key() != reference[k].result_key() {
            let f = fail(
                format!("result depends on earlier parse calls: step {step} ({}) re-parsing input #{k} {:?} of rule {} (inputs parsed from one reused buffer; {aborted} earlier parses aborted by a panicking user function)", if mode == MODE_PLAIN { "parse" } else { "parse_with_trace" }, ins[k], e.rule),
                reference[k].summary(),
                obs.summary(),
            );
            return Err(f);
        }
    }
    Ok(aborted)
}

fn history_case(
    g: &GCtx,
    e: &RuleEntry,
    input_bytes: &[Vec<u8>],
    order: &[u16],
    cfg: &inputs::InputCfg,
    same_len_bias: bool,
) -> Result<(CaseOut, Vec<String>), (Failure, Vec<String>)> {
    let mut ins: Vec<String> = input_bytes.iter().map(|b| inputs::build_input(&g.model, e.rule, b, cfg, &g.alphabet).0).collect();
    if same_len_bias && ins.len() >= 2 {
        // equal-length inputs with different content are the interesting ones (cache key = offset)
        let n = ins.len();
        for i in 1..n {
            if i % 2 == 1 {
                let prev: Vec<char> = ins[i - 1].chars().collect();
                if !prev.is_empty() {
                    let k = (order.get(i).copied().unwrap_or(0) as usize) % prev.len();
                    let mut c = prev.clone();
                    c[k] = g.alphabet[(order.get(i + 1).copied().unwrap_or(1) as usize) % g.alphabet.len()];
                    ins[i] = c.into_iter().collect();
                }
            }
        }
    }
    // cost guard: drop inputs on which the grammar needs exponential time
    ins.retain(|i| !oracle(g, e.rule, i, 0).diverged);
    let mut out = CaseOut::default();
    if ins.is_empty() {
        out.skipped = Some("oracle_diverged");
        return Ok((out, ins));
    }
    let aborted = match history_steps(g, e, &ins, order) {
        Ok(a) => a,
        Err(f) => return Err((f, ins)),
    };
    let mut lens = BTreeMap::new();
    for i in &ins {
        *lens.entry(i.len()).or_insert(0) += 1;
    }
    if lens.values().any(|c| *c >= 2) {
        out.classes.push("equal_length_inputs");
        out.nontrivial = true;
    }
    if aborted > 0 {
        out.classes.push("history_with_aborted_parse");
        out.nontrivial = true;
    }
    Ok((out, ins))
}

fn run_histories(cr: &CaseRunner, g: &GCtx, e: &RuleEntry, partial: &mut Partial, histories: u32) {
    let cfg = crate::driver::input_cfg(cr.prop, cr.max_len);
    let seed = seed_bytes(cr.seed ^ 0x4849, g.ghash, fnv64(e.rule.as_bytes()));
    let mut runner = TestRunner::new_with_rng(
        Config { cases: histories, failure_persistence: None, max_shrink_iters: 2000, ..Config::default() },
        TestRng::from_seed(RngAlgorithm::ChaCha, &seed),
    );
    let failed = RefCell::new(false);
    let acc = RefCell::new((0u64, Vec::<u64>::new(), 0u64));
    let aborted_histories = Cell::new(0u64);
    let last: RefCell<Option<(Vec<String>, Vec<u16>, Failure)>> = RefCell::new(None);
    let want_sample = partial.samples.len() < 4;
    let sample: RefCell<Option<serde_json::Value>> = RefCell::new(None);
    let result = runner.run(&history_strategy(16), |(bytes, order)| match history_case(g, e, &bytes, &order, &cfg, true) {
        Ok((out, ins)) => {
            if !*failed.borrow() {
                let mut a = acc.borrow_mut();
                a.0 += order.len() as u64 + ins.len() as u64;
                if out.nontrivial && want_sample && sample.borrow().is_none() {
                    *sample.borrow_mut() = Some(json!({"kind": "history", "grammar": g.text, "rule": e.rule, "inputs": ins,
                        "order": order.iter().map(|ix| ((*ix as usize) * ins.len()) >> 16).collect::<Vec<_>>()}));
                }
                if out.nontrivial {
                    let parts: Vec<&[u8]> = ins.iter().map(|s| s.as_bytes()).collect();
                    a.1.push(hash_parts(&parts) ^ g.ghash);
                    a.2 += 1;
                }
                if out.classes.contains(&"history_with_aborted_parse") {
                    aborted_histories.set(aborted_histories.get() + 1);
                }
            }
            Ok(())
        }
        Err((f, ins)) => {
            *failed.borrow_mut() = true;
            let msg = f.msg.clone();
            *last.borrow_mut() = Some((ins, order.clone(), f));
            Err(TestCaseError::fail(msg))
        }
    });
    let a = acc.into_inner();
    partial.evaluations += a.0;
    partial.nontrivial.extend(a.1);
    if let Some(sm) = sample.into_inner() {
        partial.samples.push(sm);
    }
    *partial.classes.entry("history_with_equal_length_inputs".into()).or_insert(0) += a.2;
    if aborted_histories.get() > 0 {
        *partial.classes.entry("history_with_aborted_parse".into()).or_insert(0) += aborted_histories.get();
    }
    if let Err(TestError::Fail(..)) = result {
        if let Some((ins, order, f)) = last.into_inner() {
            partial.violations.push(json!({
                "property": cr.prop, "kind": "history", "grammar_id": g.id, "grammar_text": g.text, "spec": g.spec,
                "rule": e.rule, "inputs": ins, "order": order, "message": f.msg, "expected": f.expected, "observed": f.observed,
            }));
        }
    }
}

fn run_c05(table: &'static [GrammarEntry], ctxs: &[(usize, GCtx)], cr: &CaseRunner, partial: &mut Partial) {
    for (_gk, members) in groups(ctxs) {
        if members.len() < 2 {
            continue;
        }
        let base = &members[0].1;
        let rules: Vec<&str> = table[members[0].0].rules.iter().map(|e| e.rule).filter(|r| members.iter().all(|m| find_rule(table, m.0, r).is_some())).collect();
        for rule in rules {
            if partial.violations.len() >= 3 {
                return;
            }
            let mm = members.clone();
            run_loop(cr, base, rule, cr.cases, partial, &mut |input| c05_case(table, &mm, rule, input), &mut |input, f| group_violation("C05", &mm, rule, input, f));
        }
        // histories on the all-memoized variant
        if let Some(all) = members.iter().find(|m| m.1.spec.role == "all") {
            for e in table[all.0].rules.iter().filter(|e| !e.rule.starts_with("W_")) {
                run_histories(cr, &all.1, e, partial, (cr.cases / 20).max(5));
            }
        }
    }
}

// ------------------------------------------------------------------------------------------------
// C06: packrat bound
// ------------------------------------------------------------------------------------------------
fn c06_case(g: &GCtx, e: &RuleEntry, input: &str) -> Result<CaseOut, Failure> {
    let mut out = CaseOut::default();
    let o_plain = oracle(g, e.rule, input, 0);
    if o_plain.diverged {
        out.skipped = Some("oracle_diverged");
        return Ok(out);
    }
    let o = interp::run(&g.model, &g.shapes, e.rule, input, interp::Cfg { memo_aware: true, ..Default::default() });
    crate::set_fuel_from_oracle(o_plain.stats.rule_calls);
    let rec = observe(e.parse, input, MODE_REC, 0);
    if rec.panic.is_some() {
        out.skipped = Some("panic_or_fuel");
        return Ok(out);
    }
    // (a) user functions: never more calls than the packrat model makes
    let mut want: BTreeMap<(&str, &str), i64> = BTreeMap::new();
    for h in &o.hooks {
        *want.entry((h.name.as_str(), h.arg.as_str())).or_insert(0) += 1;
    }
    // the later checks of a rule whose earlier check failed MAY be called as well (the order and short-circuiting of
    // several checks is not specified): each such call counts like a predicted one
    for h in &o.hooks_optional {
        *want.entry((h.name.as_str(), h.arg.as_str())).or_insert(0) += 1;
    }
    let mut got: BTreeMap<(&str, &str), i64> = BTreeMap::new();
    for h in &rec.hooks {
        *got.entry((h.name.as_str(), h.arg.as_str())).or_insert(0) += 1;
    }
    for (k, n) in &got {
        let w = want.get(k).copied().unwrap_or(0);
        if *n > w {
            let off = input.len() - k.1.len().min(input.len());
            return Err(fail(
                format!("user function {} reached through a memoized rule ran {} times at offset {} (packrat model: {}) for rule {} on {:?}", k.0, n, off, w, e.rule, input),
                format!("<= {w} calls"),
                format!("{n} calls"),
            ));
        }
    }
    // (b) rule entries: never more than the packrat model
    let mut want_s: BTreeMap<(&str, usize), i64> = BTreeMap::new();
    for ev in &o.trace {
        if let interp::Ev::Start { rule, pos, .. } = ev {
            *want_s.entry((rule.as_str(), *pos)).or_insert(0) += 1;
        }
    }
    let mut got_s: BTreeMap<(&str, usize), i64> = BTreeMap::new();
    for ev in &rec.trace {
        if let TEv::Start { rule, pos, .. } = ev {
            *got_s.entry((rule.as_str(), *pos)).or_insert(0) += 1;
        }
    }
    for (k, n) in &got_s {
        let w = want_s.get(k).copied().unwrap_or(0);
        if *n > w {
            return Err(fail(
                format!("rule {} was entered {} times at offset {} although a memoized caller must answer from the cache (packrat model: {}) — parsing rule {} on {:?}", k.0, n, k.1, w, e.rule, input),
                format!("<= {w} entries"),
                format!("{n} entries"),
            ));
        }
    }
    // (c) global bound when every normal rule is memoized
    if g.spec.role == "all_memoized" {
        let nrules = g.model.normals().filter(|n| n.memoize()).count();
        let probes: usize = rec.hooks.iter().filter(|h| h.name.starts_with("ext_probe")).count();
        let bound = nrules * (input.len() + 1);
        if probes > bound {
            return Err(fail("more memoized body evaluations than rules x (len + 1)", format!("<= {bound}"), probes.to_string()));
        }
    }
    if o_plain.stats.memo_revisits > 0 {
        out.classes.push("memo_revisit");
    }
    if o_plain.stats.memo_revisit_first_failed > 0 {
        out.classes.push("memo_revisit_after_failure");
        out.nontrivial = true;
    }
    Ok(out)
}

fn run_c06(table: &'static [GrammarEntry], ctxs: &[(usize, GCtx)], cr: &CaseRunner, partial: &mut Partial) {
    for (ti, g) in ctxs {
        for e in table[*ti].rules {
            if partial.violations.len() >= 3 {
                return;
            }
            run_loop(cr, g, e.rule, cr.cases, partial, &mut |input| c06_case(g, e, input), &mut |input, f| violation_json("C06", g, e.rule, input, f));
        }
    }
}

// ------------------------------------------------------------------------------------------------
// C07: left recursion
// ------------------------------------------------------------------------------------------------
fn c07_case(g: &GCtx, e: &RuleEntry, input: &str) -> Result<CaseOut, Failure> {
    let mut out = CaseOut::default();
    let o = oracle(g, e.rule, input, 0);
    if o.diverged {
        out.skipped = Some("oracle_diverged");
        return Ok(out);
    }
    crate::set_fuel_from_oracle(o.stats.rule_calls);
    let rec = observe(e.parse, input, MODE_REC, 0);
    if is_fuel(&rec) {
        return Err(fail(format!("@leftrec parse of rule {} on {:?} does not terminate (tracer fuel / depth exhausted)", e.rule, input), oracle_summary(&o), rec.summary()));
    }
    let plain = observe(e.parse, input, MODE_PLAIN, 0);
    if let Some(p) = &plain.panic {
        return Err(fail(format!("parser panicked: {p}"), oracle_summary(&o), plain.summary()));
    }
    if plain.ok != o.ok {
        return Err(fail(format!("acceptance differs from seed-and-grow for rule {} on {:?}", e.rule, input), oracle_summary(&o), plain.summary()));
    }
    if plain.ok && plain.debug != o.value {
        return Err(fail(format!("tree differs from the left-nested longest growth for rule {} on {:?}", e.rule, input), o.value.clone(), plain.debug.clone()));
    }
    if o.stats.growth_steps >= 2 {
        out.classes.push("growth>=2");
        out.nontrivial = true;
    }
    if !o.ok && o.stats.growth_entered > 0 {
        out.classes.push("failing_after_entering_growth");
        out.nontrivial = true;
    }
    if o.stats.growth_steps >= 1 && o.stats.hooks_failed > 0 {
        out.classes.push("check_failed_during_growth");
        out.nontrivial = true;
    }
    out.classes.push(if o.ok { "accept" } else { "reject" });
    Ok(out)
}

/// constructive oracle for `E = l:*E op r:Atom | ... | a:Atom` with `Atom = 'a'..'c'` (no interpreter involved)
fn c07_constructive(g: &GCtx, e: &RuleEntry, bytes: &[u8]) -> Result<(CaseOut, String), Failure> {
    let sh = g.spec.flags.constructive.as_ref().unwrap();
    let mut src = Src::new(bytes);
    let n = src.range(0, 7);
    let mut input = String::new();
    let first = src.choose(&sh.base).clone();
    input.push_str(&first);
    let mut tree = format!("E {{ l: None, r: None, a: Some({:?}) }}", first);
    let mut consumed = input.len();
    let mut steps = 0;
    for _ in 0..n {
        let op = src.choose(&sh.ops).clone();
        let at = src.choose(&sh.base).clone();
        input.push_str(&op);
        input.push_str(&at);
        tree = format!("E {{ l: Some({}), r: Some({:?}), a: None }}", tree, at);
        consumed = input.len();
        steps += 1;
    }
    // trailing junk that cannot extend the match
    let junk = *src.choose(&["", "", "?", "a", "??", " "]);
    let dangling = if src.chance(50) { sh.ops[0].clone() } else { String::new() };
    input.push_str(&dangling);
    input.push_str(junk);
    // the dangling operator + junk must not form a valid extension
    let ext_ok = !dangling.is_empty() && sh.base.iter().any(|b| junk.starts_with(b.as_str()));
    if ext_ok {
        // it would extend: account for it
        tree = format!("E {{ l: Some({}), r: Some({:?}), a: None }}", tree, &junk[..1]);
        consumed += dangling.len() + 1;
        steps += 1;
    }
    crate::set_fuel(20_000 + 2_000 * input.len());
    let rec = observe(e.parse, &input, MODE_REC, 0);
    if is_fuel(&rec) {
        return Err(fail(format!("@leftrec parse on {:?} does not terminate", input), tree, rec.summary()));
    }
    let plain = observe(e.parse, &input, MODE_PLAIN, 0);
    let want = if e.rule == "W_E" { format!("W_E {{ v: {}, position: 0..{} }}", tree, consumed) } else { tree.clone() };
    if !plain.ok || plain.debug != want {
        return Err(fail(format!("`b x*` not accepted greedily with the left-nested tree for {:?} (rule {})", input, e.rule), want, plain.summary()));
    }
    let mut out = CaseOut::default();
    if steps >= 2 {
        out.nontrivial = true;
        out.classes.push("constructive_growth>=2");
    }
    Ok((out, input))
}

fn run_c07(table: &'static [GrammarEntry], ctxs: &[(usize, GCtx)], cr: &CaseRunner, partial: &mut Partial) {
    for (ti, g) in ctxs {
        for e in table[*ti].rules {
            if partial.violations.len() >= 3 {
                return;
            }
            run_loop(cr, g, e.rule, cr.cases, partial, &mut |input| c07_case(g, e, input), &mut |input, f| violation_json("C07", g, e.rule, input, f));
            if g.spec.flags.constructive.is_some() && (e.rule == "E" || e.rule == "W_E") {
                // constructive oracle
                let seed = seed_bytes(cr.seed ^ 0xC07, g.ghash, fnv64(e.rule.as_bytes()));
                let mut runner = TestRunner::new_with_rng(
                    Config { cases: cr.cases, failure_persistence: None, max_shrink_iters: 2000, ..Config::default() },
                    TestRng::from_seed(RngAlgorithm::ChaCha, &seed),
                );
                let failed = RefCell::new(false);
                let acc = RefCell::new((0u64, Vec::<u64>::new(), 0u64));
                let last: RefCell<Option<Failure>> = RefCell::new(None);
                let r = runner.run(&proptest::collection::vec(any::<u8>(), 0..40), |bytes| match c07_constructive(g, e, &bytes) {
                    Ok((out, input)) => {
                        if !*failed.borrow() {
                            let mut a = acc.borrow_mut();
                            a.0 += 1;
                            if out.nontrivial {
                                a.1.push(hash_parts(&[&g.ghash.to_le_bytes(), e.rule.as_bytes(), input.as_bytes(), b"constructive"]));
                                a.2 += 1;
                            }
                        }
                        Ok(())
                    }
                    Err(f) => {
                        *failed.borrow_mut() = true;
                        let m = f.msg.clone();
                        *last.borrow_mut() = Some(f);
                        Err(TestCaseError::fail(m))
                    }
                });
                let a = acc.into_inner();
                partial.evaluations += a.0;
                partial.nontrivial.extend(a.1);
                *partial.classes.entry("constructive_growth>=2".into()).or_insert(0) += a.2;
                if let Err(TestError::Fail(_, bytes)) = r {
                    let f = match c07_constructive(g, e, &bytes) {
                        Err(f) => f,
                        Ok(_) => last.into_inner().unwrap(),
                    };
                    let input = f.msg.split('"').nth(1).unwrap_or("").to_string();
                    partial.violations.push(violation_json("C07", g, e.rule, &input, &f));
                }
            }
        }
    }
}

// ------------------------------------------------------------------------------------------------
// C13: include == inlined body
// ------------------------------------------------------------------------------------------------
fn c13_case(table: &'static [GrammarEntry], a: &(usize, GCtx), b: &(usize, GCtx), rule: &str, input: &str) -> Result<CaseOut, Failure> {
    let mut out = CaseOut::default();
    let (ea, eb) = (find_rule(table, a.0, rule).unwrap(), find_rule(table, b.0, rule).unwrap());
    // cost guard: inputs on which the grammar needs exponential time are skipped (the oracle runs out of fuel first)
    let o = oracle(&a.1, rule, input, 0);
    if o.diverged {
        out.skipped = Some("oracle_diverged");
        return Ok(out);
    }
    let oa = observe(ea.parse, input, MODE_PLAIN, 0);
    let ob = observe(eb.parse, input, MODE_PLAIN, 0);
    if oa.panic.is_some() != ob.panic.is_some() || oa.ok != ob.ok || oa.debug != ob.debug {
        return Err(fail(format!("`>Rule` and the parenthesised body disagree for rule {} on {:?}", rule, input), ob.summary(), oa.summary()));
    }
    if !oa.ok && oa.panic.is_none() && oa.err_pos != ob.err_pos {
        return Err(fail(format!("error position differs between `>Rule` and the inlined body for rule {} on {:?}", rule, input), format!("{}", ob.err_pos), format!("{}", oa.err_pos)));
    }
    if !o.diverged && oa.panic.is_none() {
        if o.ok != oa.ok || (o.ok && o.value != oa.debug) {
            return Err(fail(format!("grammar with includes differs from PEG semantics (includer's settings) for rule {} on {:?}", rule, input), oracle_summary(&o), oa.summary()));
        }
        if o.stats.includes_entered > 0 {
            out.classes.push("include_entered");
        }
        if o.stats.includes_nested > 0 {
            out.classes.push("include_in_nested_construct");
            out.nontrivial = true;
        }
    }
    Ok(out)
}

fn run_c13(table: &'static [GrammarEntry], ctxs: &[(usize, GCtx)], cr: &CaseRunner, partial: &mut Partial) {
    for (_k, members) in groups(ctxs) {
        if members.len() != 2 {
            continue;
        }
        let (a, b) = if members[0].1.spec.role == "include" { (members[0], members[1]) } else { (members[1], members[0]) };
        if a.1.types_hash != b.1.types_hash {
            partial.violations.push(json!({
                "property": "C13", "kind": "types", "grammar_text": a.1.text, "inlined_text": b.1.text, "spec": a.1.spec,
                "message": "public type declarations differ between the grammar with `>Rule` and the grammar with the body written in place",
                "expected": b.1.types_text, "observed": a.1.types_text,
            }));
            continue;
        }
        partial.evaluations += 1;
        let rules: Vec<&str> = table[a.0].rules.iter().map(|e| e.rule).filter(|r| find_rule(table, b.0, r).is_some()).collect();
        for rule in rules {
            if partial.violations.len() >= 3 {
                return;
            }
            run_loop(cr, &a.1, rule, cr.cases, partial, &mut |input| c13_case(table, a, b, rule, input), &mut |input, f| group_violation("C13", &[a, b], rule, input, f));
        }
    }
}

// ------------------------------------------------------------------------------------------------
// C16 (macro route): peginate!() expands to a parser with the same types and behaviour
// ------------------------------------------------------------------------------------------------
fn c16_case(table: &'static [GrammarEntry], a: &(usize, GCtx), b: &(usize, GCtx), rule: &str, input: &str) -> Result<CaseOut, Failure> {
    let mut out = CaseOut::default();
    let (ea, eb) = (find_rule(table, a.0, rule).unwrap(), find_rule(table, b.0, rule).unwrap());
    if oracle(&a.1, rule, input, 0).diverged {
        out.skipped = Some("oracle_diverged");
        return Ok(out);
    }
    let oa = observe(ea.parse, input, MODE_PLAIN, 0);
    let ob = observe(eb.parse, input, MODE_PLAIN, 0);
    if oa.result_key() != ob.result_key() {
        return Err(fail(format!("peginate!() parser and library-route parser disagree for rule {} on {:?}", rule, input), oa.summary(), ob.summary()));
    }
    out.nontrivial = oa.ok && oa.debug.len() > 20 || (!oa.ok && oa.err_pos > 0);
    out.classes.push(if oa.ok { "accept" } else { "reject" });
    Ok(out)
}

fn run_c16(table: &'static [GrammarEntry], ctxs: &[(usize, GCtx)], cr: &CaseRunner, partial: &mut Partial) {
    for (_k, members) in groups(ctxs) {
        if members.len() != 2 {
            continue;
        }
        let (a, b) = if members[0].1.spec.role == "library" { (members[0], members[1]) } else { (members[1], members[0]) };
        let rules: Vec<&str> = table[a.0].rules.iter().map(|e| e.rule).filter(|r| find_rule(table, b.0, r).is_some()).collect();
        for rule in rules {
            if partial.violations.len() >= 3 {
                return;
            }
            run_loop(cr, &a.1, rule, cr.cases, partial, &mut |input| c16_case(table, a, b, rule, input), &mut |input, f| group_violation("C16", &[a, b], rule, input, f));
        }
    }
}

// ------------------------------------------------------------------------------------------------
// C20: purity across histories and threads
// ------------------------------------------------------------------------------------------------
fn run_c20(table: &'static [GrammarEntry], ctxs: &[(usize, GCtx)], cr: &CaseRunner, partial: &mut Partial) {
    let cfg = crate::driver::input_cfg(cr.prop, cr.max_len);
    // sequential histories
    for (ti, g) in ctxs {
        for e in table[*ti].rules.iter().filter(|e| !e.rule.starts_with("W_")) {
            run_histories(cr, g, e, partial, (cr.cases / 10).max(5));
        }
    }
    // schedules: work items (grammar, rule, input) assigned to threads by a generated assignment
    let mut items_pool: Vec<(usize, usize, &GCtx)> = vec![];
    for (ti, g) in ctxs {
        for (ri, e) in table[*ti].rules.iter().enumerate() {
            if !e.rule.starts_with("W_") {
                items_pool.push((*ti, ri, g));
            }
        }
    }
    if items_pool.is_empty() {
        return;
    }
    let rounds = (cr.cases / 10).max(20);
    let seed = seed_bytes(cr.seed ^ 0xC20, fnv64(b"sched"), ctxs.len() as u64 ^ ctxs[0].1.ghash);
    let mut runner = TestRunner::new_with_rng(
        Config { cases: rounds, failure_persistence: None, max_shrink_iters: 200, ..Config::default() },
        TestRng::from_seed(RngAlgorithm::ChaCha, &seed),
    );
    // a round: 2..4 (grammar,rule) pairs, 8..40 inputs each, thread count, assignment bytes
    let strat = (
        proptest::collection::vec((any::<u16>(), proptest::collection::vec(proptest::collection::vec(any::<u8>(), 0..80), 8..40)), 2..5),
        2usize..17,
        proptest::collection::vec(any::<u8>(), 200),
    );
    let failed = RefCell::new(false);
    let acc = RefCell::new((0u64, Vec::<u64>::new(), 0u64));
    let last: RefCell<Option<serde_json::Value>> = RefCell::new(None);
    let sched_sample: RefCell<Option<serde_json::Value>> = RefCell::new(None);
    let result = runner.run(&strat, |(pairs, nthreads, assign)| {
        let mut work: Vec<(fn(&str, u8, u64) -> crate::Raw, String, String, String)> = vec![];
        let mut same_len_pairs = 0;
        for (pick, inputs_b) in &pairs {
            let (ti, ri, g) = items_pool[((*pick as usize) * items_pool.len()) >> 16];
            let e = &table[ti].rules[ri];
            let mut ins: Vec<String> = inputs_b.iter().map(|b| inputs::build_input(&g.model, e.rule, b, &cfg, &g.alphabet).0).collect();
            // make neighbours equal-length variants
            for i in (1..ins.len()).step_by(3) {
                let prev: Vec<char> = ins[i - 1].chars().collect();
                if !prev.is_empty() {
                    let k = assign[i % assign.len()] as usize % prev.len();
                    let mut c = prev.clone();
                    c[k] = g.alphabet[assign[(i + 7) % assign.len()] as usize % g.alphabet.len()];
                    ins[i] = c.into_iter().collect();
                    same_len_pairs += 1;
                }
            }
            for i in ins {
                // cost guard: exponential cases are left out
                if oracle(g, e.rule, &i, 0).diverged {
                    continue;
                }
                work.push((e.parse, g.id.clone(), e.rule.to_string(), i));
            }
        }
        if work.is_empty() {
            return Ok(());
        }
        let reference: Vec<(bool, String, usize, String, bool)> = work
            .iter()
            .map(|w| {
                let o = observe(w.0, &w.3, MODE_PLAIN, 0);
                (o.ok, o.debug, o.err_pos, o.err_spec, o.panic.is_some())
            })
            .collect();
        // assignment; in a quarter of the rounds every thread additionally starts with the SAME item - the most deeply
        // nested one - so that all threads are inside the same rules on the same input at once
        let mut per: Vec<Vec<usize>> = vec![vec![]; nthreads];
        if assign[199] % 4 == 0 {
            let deepest = (0..work.len()).max_by_key(|i| work[*i].3.len()).unwrap();
            for p in per.iter_mut() {
                p.push(deepest);
            }
        }
        for i in 0..work.len() {
            per[assign[i % assign.len()] as usize % nthreads].push(i);
        }
        let barrier = std::sync::Barrier::new(nthreads);
        let results: Vec<Vec<(usize, (bool, String, usize, String, bool))>> = std::thread::scope(|s| {
            let hs: Vec<_> = per
                .iter()
                .map(|idxs| {
                    let work = &work;
                    let barrier = &barrier;
                    // deeply nested inputs need more than the default 2 MB thread stack
                    std::thread::Builder::new().stack_size(512 << 20).spawn_scoped(s, move || {
                        // every thread parses out of its own reused buffer
                        let mut buf = String::with_capacity(inputs::PUMP_MAX_LEN + 64);
                        barrier.wait();
                        let mut out = vec![];
                        // each thread walks its items twice (repetition)
                        for rep in 0..2usize {
                            for &i in idxs {
                                buf.clear();
                                buf.push_str(&work[i].3);
                                // some of the concurrent parses go through parse_with_trace
                                let mode = if (i + rep) % 5 == 0 { crate::MODE_INDENTED } else { MODE_PLAIN };
                                let o = observe(work[i].0, &buf, mode, 0);
                                out.push((i, (o.ok, o.debug, o.err_pos, o.err_spec, o.panic.is_some())));
                            }
                        }
                        out
                    })
                    .expect("spawn")
                })
                .collect();
            hs.into_iter().map(|h| h.join().unwrap()).collect()
        });
        for (t, rs) in results.iter().enumerate() {
            for (i, r) in rs {
                if *r != reference[*i] {
                    *failed.borrow_mut() = true;
                    *last.borrow_mut() = Some(json!({
                        "property": "C20", "kind": "schedule", "grammar_id": work[*i].1, "rule": work[*i].2, "input": work[*i].3,
                        "threads": nthreads, "thread": t,
                        "message": format!("concurrent parse result differs from the sequential reference for rule {} on {:?}", work[*i].2, work[*i].3),
                        "expected": format!("{:?}", reference[*i]), "observed": format!("{:?}", r),
                    }));
                    return Err(TestCaseError::fail("schedule"));
                }
            }
        }
        if !*failed.borrow() {
            let mut a = acc.borrow_mut();
            a.0 += (work.len() * 3) as u64;
            if same_len_pairs > 0 && nthreads >= 2 {
                let parts: Vec<&[u8]> = work.iter().map(|w| w.3.as_bytes()).collect();
                a.1.push(hash_parts(&parts) ^ nthreads as u64);
                a.2 += 1;
                if sched_sample.borrow().is_none() {
                    *sched_sample.borrow_mut() = Some(json!({"kind": "schedule", "threads": nthreads, "items": work.len(),
                        "first_items": work.iter().take(6).map(|w| json!({"grammar_id": w.1, "rule": w.2, "input": w.3})).collect::<Vec<_>>(),
                        "assignment": per.iter().map(|v| v.len()).collect::<Vec<_>>()}));
                }
            }
        }
        Ok(())
    });
    let a = acc.into_inner();
    partial.evaluations += a.0;
    partial.nontrivial.extend(a.1);
    *partial.classes.entry("concurrent_round_with_equal_length_inputs".into()).or_insert(0) += a.2;
    if let Some(sm) = sched_sample.into_inner() {
        partial.samples.push(sm);
    }
    if result.is_err() {
        if let Some(v) = last.into_inner() {
            partial.violations.push(v);
        }
    }
}

// ------------------------------------------------------------------------------------------------
// replay
// ------------------------------------------------------------------------------------------------
pub fn replay(table: &'static [GrammarEntry], by_id: &HashMap<String, ModelEntry>, rec: &serde_json::Value, cr: &CaseRunner, partial: &mut Partial) {
    let rule = rec["rule"].as_str().unwrap_or("");
    let input = rec["input"].as_str().unwrap_or("");
    let mut ctxs: Vec<(usize, GCtx)> = vec![];
    for (ti, ge) in table.iter().enumerate() {
        let me = match by_id.get(ge.id) {
            Some(x) => x,
            None => continue,
        };
        if let Ok(mut g) = GCtx::new(ge.id, &me.text, &me.spec) {
            g.types_hash = me.types_hash.clone();
            g.types_text = me.types_text.clone();
            ctxs.push((ti, g));
        }
    }
    partial.grammars = ctxs.len() as u64;
    let kind = rec["kind"].as_str().unwrap_or("case");
    match (cr.prop, kind) {
        ("C05", "group") => {
            let members: Vec<&(usize, GCtx)> = ctxs.iter().collect();
            partial.evaluations += 1;
            if let Err(f) = c05_case(table, &members, rule, input) {
                partial.violations.push(group_violation("C05", &members, rule, input, &f));
            }
        }
        ("C13", "group") | ("C13", "types") => {
            if ctxs.len() == 2 {
                let (a, b) = if ctxs[0].1.spec.role == "include" { (&ctxs[0], &ctxs[1]) } else { (&ctxs[1], &ctxs[0]) };
                partial.evaluations += 1;
                if a.1.types_hash != b.1.types_hash {
                    partial.violations.push(json!({"property": "C13", "kind": "types", "message": "public type declarations differ", "grammar_text": a.1.text}));
                } else if kind == "group" {
                    if let Err(f) = c13_case(table, a, b, rule, input) {
                        partial.violations.push(group_violation("C13", &[a, b], rule, input, &f));
                    }
                }
            }
        }
        (_, "history") => {
            let ins: Vec<String> = rec["inputs"].as_array().map(|a| a.iter().map(|x| x.as_str().unwrap_or("").to_string()).collect()).unwrap_or_default();
            let order: Vec<u16> = rec["order"].as_array().map(|a| a.iter().map(|x| x.as_u64().unwrap_or(0) as u16).collect()).unwrap_or_default();
            for (ti, g) in &ctxs {
                if let Some(e) = find_rule(table, *ti, rule) {
                    partial.evaluations += 1;
                    if let Err(f) = history_steps(g, e, &ins, &order) {
                        partial.violations.push(json!({"property": cr.prop, "kind": "history", "grammar_text": g.text, "rule": rule, "message": f.msg, "expected": f.expected, "observed": f.observed}));
                    }
                }
            }
        }
        _ => {
            for (ti, g) in &ctxs {
                if let Some(e) = find_rule(table, *ti, rule) {
                    partial.evaluations += 1;
                    let r = match cr.prop {
                        "C06" => c06_case(g, e, input),
                        "C07" => c07_case(g, e, input),
                        "C05" | "C13" | "C20" => Ok(CaseOut::default()),
                        p => props::check_case(p, g, e, input),
                    };
                    if let Err(f) = r {
                        partial.violations.push(violation_json(cr.prop, g, rule, input, &f));
                    }
                }
            }
        }
    }
}
