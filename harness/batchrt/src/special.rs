//! Group / history / schedule relations (C05, C06, C07, C13, C20) and replay.
use crate::driver::{violation_json, CaseRunner, Partial};
use crate::props::{self, GCtx};
use crate::GrammarEntry;
use std::collections::HashMap;
use verif_core::plans::GrammarSpec;

pub fn run(_table: &'static [GrammarEntry], _ctxs: &[(usize, GCtx)], _cr: &CaseRunner, _partial: &mut Partial) {
    unimplemented!()
}

pub fn replay(table: &'static [GrammarEntry], by_id: &HashMap<String, (String, GrammarSpec)>, rec: &serde_json::Value, cr: &CaseRunner, partial: &mut Partial) {
    let rule = rec["rule"].as_str().unwrap_or("");
    let input = rec["input"].as_str().unwrap_or("");
    for ge in table {
        let (text, spec) = match by_id.get(ge.id) {
            Some(x) => x,
            None => continue,
        };
        let g = match GCtx::new(ge.id, text, spec) {
            Ok(g) => g,
            Err(_) => continue,
        };
        partial.grammars += 1;
        for e in ge.rules {
            if e.rule == rule {
                partial.evaluations += 1;
                if let Err(f) = props::check_case(cr.prop, &g, e, input) {
                    partial.violations.push(violation_json(cr.prop, &g, rule, input, &f));
                }
            }
        }
    }
}
