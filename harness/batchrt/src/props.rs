//! Per-property relations between an observed parse and the oracle.
use crate::{observe, Obs, RuleEntry, TEv, MODE_INDENTED, MODE_PLAIN, MODE_REC};
use std::collections::BTreeSet;
use verif_core::debugval::{self, DV};
use verif_core::interp::{self, Ev, Outcome};
use verif_core::model::*;
use verif_core::plans::GrammarSpec;
use verif_core::shapes::{Kind, Shapes};

pub struct GCtx {
    pub id: String,
    pub text: String,
    pub model: Grammar,
    pub shapes: Shapes,
    pub spec: GrammarSpec,
    pub alphabet: Vec<char>,
    pub has_memo: bool,
    pub has_leftrec: bool,
    pub rec_alts_first: bool,
    pub mixed_ws: bool,
    pub ghash: u64,
    pub types_hash: String,
    pub types_text: String,
}

impl GCtx {
    pub fn new(id: &str, text: &str, spec: &GrammarSpec) -> Result<GCtx, String> {
        let model = spec.model.clone();
        let shapes = verif_core::shapes::shapes(&model).map_err(|e| format!("{:?}", e))?;
        let has_memo = model.normals().any(|n| n.memoize());
        let has_leftrec = model.normals().any(|n| n.leftrec());
        let skipping = model.normals().filter(|n| !n.name.starts_with("W_")).any(|n| !n.no_skip_ws());
        let nonskipping = model.normals().filter(|n| !n.name.starts_with("W_")).any(|n| n.no_skip_ws());
        let rec_alts_first = verif_core::model::recursive_alternatives_first(&model);
        Ok(GCtx {
            id: id.to_string(),
            text: text.to_string(),
            alphabet: verif_core::inputs::alphabet(&model),
            ghash: model.hash64(),
            model,
            shapes,
            spec: spec.clone(),
            has_memo,
            has_leftrec,
            rec_alts_first,
            mixed_ws: skipping && nonskipping,
            types_hash: String::new(),
            types_text: String::new(),
        })
    }
}

#[derive(Debug, Clone)]
pub struct Failure {
    pub msg: String,
    pub expected: String,
    pub observed: String,
}

#[derive(Debug, Default, Clone)]
pub struct CaseOut {
    pub nontrivial: bool,
    pub classes: Vec<&'static str>,
    pub skipped: Option<&'static str>,
}

fn fail(msg: impl Into<String>, expected: impl Into<String>, observed: impl Into<String>) -> Failure {
    Failure { msg: msg.into(), expected: expected.into(), observed: observed.into() }
}

pub fn oracle(g: &GCtx, rule: &str, input: &str, salt: u64) -> Outcome {
    interp::run(&g.model, &g.shapes, rule, input, interp::Cfg { salt, ..Default::default() })
}

pub fn oracle_summary(o: &Outcome) -> String {
    if o.ok {
        format!("Ok(consumed={}, {})", o.consumed, o.value)
    } else {
        format!("Err(far={:?})", o.far)
    }
}

fn is_fuel(o: &Obs) -> bool {
    o.panic.as_deref().map_or(false, |p| p.starts_with("VERIF_FUEL") || p.starts_with("VERIF_DEPTH"))
}

/// consumed bytes as the wrapper reports them
fn wrapper_consumed(dv: &DV) -> Option<(usize, usize)> {
    dv.position()
}

pub fn salt_for(g: &GCtx, input: &str) -> u64 {
    if g.spec.cfg.user_ctx {
        verif_core::util::fnv64(input.as_bytes()) % 7
    } else {
        0
    }
}

/// acceptance + consumed bytes + termination
fn base_accept(g: &GCtx, e: &RuleEntry, input: &str, plain: &Obs, o: &Outcome) -> Result<(), Failure> {
    let _ = g;
    if let Some(p) = &plain.panic {
        return Err(fail(format!("parser panicked: {p}"), oracle_summary(o), plain.summary()));
    }
    if plain.ok != o.ok {
        return Err(fail(
            format!("acceptance differs for rule {} on {:?}", e.rule, input),
            oracle_summary(o),
            plain.summary(),
        ));
    }
    if plain.ok && e.rule.starts_with("W_") {
        match debugval::parse(&plain.debug) {
            Ok(dv) => {
                if let Some((s, en)) = wrapper_consumed(&dv) {
                    if s != 0 || en != o.consumed {
                        return Err(fail(
                            format!("consumed bytes differ for rule {} on {:?}", e.rule, input),
                            format!("0..{}", o.consumed),
                            format!("{}..{}", s, en),
                        ));
                    }
                }
            }
            Err(_) => {}
        }
    }
    Ok(())
}

fn base_value(e: &RuleEntry, input: &str, plain: &Obs, o: &Outcome) -> Result<(), Failure> {
    if plain.ok && o.ok && plain.debug != o.value {
        let d = match (debugval::parse(&o.value), debugval::parse(&plain.debug)) {
            (Ok(a), Ok(b)) => a.diff(&b).unwrap_or_else(|| "(texts differ, trees equal)".into()),
            _ => "(unparsable debug text)".into(),
        };
        return Err(fail(format!("tree differs for rule {} on {:?} at {}", e.rule, input, d), o.value.clone(), plain.debug.clone()));
    }
    Ok(())
}

fn check_offsets(input: &str, obs: &Obs) -> Result<(), Failure> {
    let len = input.len();
    if !obs.ok && obs.panic.is_none() {
        if obs.err_pos > len || !input.is_char_boundary(obs.err_pos) {
            return Err(fail("error position outside the input or inside a UTF-8 sequence", format!("boundary in 0..={len}"), obs.err_pos.to_string()));
        }
    }
    if obs.ok {
        if let Ok(dv) = debugval::parse(&obs.debug) {
            let mut bad: Option<Failure> = None;
            dv.walk(&mut vec![], &mut |path, v| {
                if bad.is_some() {
                    return;
                }
                match v {
                    DV::Range(a, b) if path.last().map_or(false, |p| p == "position") => {
                        if a > b || *b > len || !input.is_char_boundary(*a) || !input.is_char_boundary(*b) {
                            bad = Some(fail(format!("bad position range at {}", path.join(".")), format!("boundaries within 0..={len}"), format!("{a}..{b}")));
                        }
                    }
                    DV::Str(s) => {
                        if !input.contains(s.as_str()) {
                            bad = Some(fail(format!("string at {} is not a substring of the input", path.join(".")), input.to_string(), s.clone()));
                        }
                    }
                    DV::Char(c) => {
                        if !input.contains(*c) {
                            bad = Some(fail(format!("char at {} does not occur in the input", path.join(".")), input.to_string(), c.to_string()));
                        }
                    }
                    _ => {}
                }
            });
            if let Some(f) = bad {
                return Err(f);
            }
        }
    }
    Ok(())
}

/// interpreter-free invariants on positions (C09)
fn check_positions(input: &str, obs: &Obs, rule: &str, shapes: &Shapes) -> Result<usize, Failure> {
    let dv = match debugval::parse(&obs.debug) {
        Ok(d) => d,
        Err(_) => return Ok(0),
    };
    let len = input.len();
    let mut count = 0usize;
    fn pos_of(v: &DV) -> Option<(usize, usize)> {
        match v {
            DV::Struct { .. } => v.position(),
            DV::Tuple { items, .. } if items.len() == 1 => pos_of(&items[0]),
            _ => None,
        }
    }
    fn go(v: &DV, parent: Option<(usize, usize)>, input: &str, len: usize, count: &mut usize, path: &mut Vec<String>) -> Result<(), Failure> {
        let mut here = parent;
        if let DV::Struct { fields, .. } = v {
            if let Some((s, e)) = v.position() {
                *count += 1;
                if s > e || e > len || !input.is_char_boundary(s) || !input.is_char_boundary(e) {
                    return Err(fail(format!("position {}..{} at {} is not a valid byte span", s, e, path.join(".")), format!("0..={len} on boundaries"), format!("{s}..{e}")));
                }
                if let Some((ps, pe)) = parent {
                    if s < ps || e > pe {
                        return Err(fail(format!("position {}..{} at {} lies outside its parent's {}..{}", s, e, path.join("."), ps, pe), format!("inside {ps}..{pe}"), format!("{s}..{e}")));
                    }
                }
                if let Some((_, DV::Str(st))) = fields.iter().find(|(n, _)| n == "string") {
                    if fields.len() == 2 && &input[s..e] != st.as_str() {
                        return Err(fail(format!("@string @position node at {}: string is not the slice of its range", path.join(".")), input[s..e].to_string(), st.clone()));
                    }
                }
                here = Some((s, e));
            }
        }
        match v {
            DV::Struct { fields, .. } => {
                for (n, c) in fields {
                    path.push(n.clone());
                    go(c, here, input, len, count, path)?;
                    path.pop();
                }
            }
            DV::Tuple { items, .. } => {
                for (i, c) in items.iter().enumerate() {
                    path.push(i.to_string());
                    go(c, here, input, len, count, path)?;
                    path.pop();
                }
            }
            DV::List(items) => {
                let mut prev: Option<(usize, usize)> = None;
                for (i, c) in items.iter().enumerate() {
                    path.push(format!("[{i}]"));
                    go(c, here, input, len, count, path)?;
                    if let Some((s, e)) = pos_of(c) {
                        if let Some((_, pe)) = prev {
                            if s < pe {
                                return Err(fail(format!("successive matches overlap or are out of order at {}", path.join(".")), format!("start >= {pe}"), format!("{s}..{e}")));
                            }
                        }
                        prev = Some((s, e));
                    }
                    path.pop();
                }
            }
            _ => {}
        }
        Ok(())
    }
    go(&dv, None, input, len, &mut count, &mut vec![])?;
    // root starts at 0
    if let Some((s, _)) = dv.position() {
        if s != 0 {
            return Err(fail("the exported root's range does not start at 0", "0", s.to_string()));
        }
    }
    // trait positions equal the fields
    for (p, r) in &obs.trait_pos {
        let target = if p.is_empty() {
            Some(&dv)
        } else if let DV::Struct { fields, .. } = &dv {
            fields.iter().find(|(n, _)| n == p).map(|(_, v)| v)
        } else {
            None
        };
        if let Some(t) = target {
            let want = pos_of(t);
            if let Some(w) = want {
                if w != *r {
                    return Err(fail(format!("PegPosition::position() of {rule}.{p} differs from the position field"), format!("{:?}", w), format!("{:?}", r)));
                }
            }
        }
    }
    let _ = shapes;
    Ok(count)
}

/// does `spec` (Debug of ParseErrorSpecifics) name something of this grammar that really fails at byte offset `p`?
fn detail_is_a_true_failure(g: &GCtx, input: &str, p: usize, spec: &str) -> bool {
    let rest = &input[p..];
    let next = rest.chars().next();
    let mut ok = false;
    let mut has_eoi = false;
    let mut has_not = false;
    let mut has_char = false;
    let mut on_char = |c: char| {
        if spec == format!("ExpectedCharacter {{ c: {:?} }}", c) && next != Some(c) {
            ok = true;
        }
    };
    let mut lits: Vec<(String, bool)> = vec![];
    let mut ranges: Vec<(char, char)> = vec![];
    let mut chars: Vec<char> = vec![];
    for r in &g.model.rules {
        match r {
            RuleDef::Normal(n) => {
                n.body.walk(&mut |e| match e {
                    Expr::Lit { s, insensitive } => {
                        lits.push((s.clone(), *insensitive));
                        if s.chars().count() == 1 {
                            chars.push(s.chars().next().unwrap());
                        }
                    }
                    Expr::Range(a, b) => ranges.push((*a, *b)),
                    Expr::Eoi => has_eoi = true,
                    Expr::Not(_) => has_not = true,
                    Expr::Ref { typ, .. } if typ == "char" => has_char = true,
                    _ => {}
                });
                for c in n.checks() {
                    if spec == format!("CheckFunctionFailed {{ function_name: {:?} }}", c) {
                        return true;
                    }
                }
            }
            RuleDef::CharClass(c) => {
                if spec == format!("ExpectedCharacterClass {{ name: {:?} }}", c.name) {
                    return true;
                }
                for part in &c.parts {
                    match part {
                        CharPart::Char(x) => chars.push(*x),
                        CharPart::Range(a, b) => ranges.push((*a, *b)),
                        CharPart::Class(n) if n == "char" => has_char = true,
                        _ => {}
                    }
                }
                for f in c.checks_before.iter().chain(&c.checks_after) {
                    if spec == format!("CheckFunctionFailed {{ function_name: {:?} }}", f.join("::")) {
                        return true;
                    }
                }
            }
            RuleDef::Extern(_) => {
                if spec.starts_with("ExternRuleFailed") {
                    return true;
                }
            }
        }
    }
    for c in chars {
        on_char(c);
    }
    if ok {
        return true;
    }
    for (a, b) in ranges {
        let (lo, hi) = if a <= b { (a, b) } else { (b, a) };
        if spec == format!("ExpectedCharacterRange {{ from: {:?}, to: {:?} }}", a, b) && !next.map_or(false, |c| a <= b && lo <= c && c <= hi) {
            return true;
        }
    }
    for (s, insensitive) in lits {
        let shown = if insensitive { s.to_ascii_lowercase() } else { s.clone() };
        if spec == format!("ExpectedString {{ s: {:?} }}", shown) || spec == format!("ExpectedString {{ s: {:?} }}", s) {
            let matches = if insensitive { rest.len() >= s.len() && rest.is_char_boundary(s.len()) && rest[..s.len()].eq_ignore_ascii_case(&s) } else { rest.starts_with(&s) };
            if !matches {
                return true;
            }
        }
    }
    (spec == "ExpectedEoi" && has_eoi && p < input.len()) || (spec == "ExpectedAnyCharacter" && has_char && p == input.len()) || (spec == "NegativeLookaheadFailed" && has_not)
}

fn check_error(g: &GCtx, input: &str, plain: &Obs, o: &Outcome) -> Result<(), Failure> {
    let len = input.len();
    if plain.err_pos > len || !input.is_char_boundary(plain.err_pos) {
        return Err(fail("error position outside the input or inside a UTF-8 sequence", format!("boundary in 0..={len}"), plain.err_pos.to_string()));
    }
    let spec = plain.err_spec.as_str();
    if spec == "LeftRecursionSentinel" {
        // the clause applies to grammars whose left-recursive rules list their recursive alternatives first: decided
        // from the grammar itself (a shrunk grammar may have lost that shape), the generator's flag only widens it
        if g.spec.flags.sentinel_allowed || !g.rec_alts_first {
            return Ok(());
        }
        return Err(fail("the internal left-recursion sentinel surfaced as the reported error", format!("one of {:?}", o.far), format!("pos={} {}", plain.err_pos, spec)));
    }
    // The offset must be one at which the reference evaluation records a failed attempt. The detail must be one of the
    // reference's attempts there, or - an implementation may make further real attempts of its own at that offset (a
    // first-character pre-test, a class reporting its alternative's error ...) - at least name a terminal / class / user
    // function / lookahead of THIS grammar that truly does not match at that offset.
    let offset_known = o.all.iter().any(|(p, _)| *p == plain.err_pos);
    let detail_ok = o.all.contains(&(plain.err_pos, spec.to_string())) || detail_is_a_true_failure(g, input, plain.err_pos, spec);
    if !offset_known || !detail_ok {
        return Err(fail(
            "reported error is not a match attempt that failed at that offset during this parse",
            format!("one of {:?}", o.all.iter().take(12).collect::<Vec<_>>()),
            format!("pos={} {}", plain.err_pos, spec),
        ));
    }
    if !g.has_memo && !g.has_leftrec {
        match &o.far {
            Some((p, specs)) => {
                if *p != plain.err_pos {
                    return Err(fail("reported position is not the furthest failure", format!("pos={} one of {:?}", p, specs), format!("pos={} {}", plain.err_pos, spec)));
                }
                if !specs.contains(spec) && !detail_is_a_true_failure(g, input, plain.err_pos, spec) {
                    return Err(fail("reported detail is not an attempt that counted at the furthest offset", format!("pos={} one of {:?}", p, specs), format!("pos={} {}", plain.err_pos, spec)));
                }
            }
            None => {
                return Err(fail("parse failed without any failed attempt in the oracle", "none", format!("pos={} {}", plain.err_pos, spec)));
            }
        }
    }
    Ok(())
}

pub fn check_trace_balance(rule: &str, obs: &Obs) -> Result<(), Failure> {
    let mut depth: i64 = 0;
    let mut stack: Vec<&str> = vec![];
    let mut outer_ok: Option<bool> = None;
    // (informative lines may come before the first entry and after the last exit)
    let mut seen_top = false;
    for (i, ev) in obs.trace.iter().enumerate() {
        match ev {
            TEv::Start { rule: r, depth: d, .. } => {
                if *d as i64 != depth {
                    return Err(fail(format!("tracer value's own depth {} differs from nesting depth {} at event {} (tracer copied?)", d, depth, i), depth.to_string(), d.to_string()));
                }
                if depth == 0 && seen_top {
                    return Err(fail("a second top-level rule entry in the trace", "one outermost entry", format!("event {i}: {:?}", ev)));
                }
                seen_top = true;
                stack.push(r);
                depth += 1;
            }
            TEv::Result { ok, depth: d } => {
                depth -= 1;
                if depth < 0 {
                    return Err(fail(format!("rule exit without entry at event {i} (indentation underflow)"), "balanced", format!("{:?}", &obs.trace[..=i.min(obs.trace.len() - 1)].iter().rev().take(4).collect::<Vec<_>>())));
                }
                if *d as i64 != depth {
                    return Err(fail(format!("tracer value's own depth {} differs from nesting depth {} at exit event {}", d, depth, i), depth.to_string(), d.to_string()));
                }
                stack.pop();
                if depth == 0 {
                    outer_ok = Some(*ok);
                }
            }
            TEv::Info { depth: d, .. } => {
                if *d as i64 != depth {
                    return Err(fail(format!("tracer depth mismatch at info event {i}"), depth.to_string(), d.to_string()));
                }
            }
        }
    }
    if depth != 0 {
        return Err(fail(format!("{} rule entries without exit (unbalanced trace)", depth), "balanced", format!("open: {:?}", stack)));
    }
    match obs.trace.iter().find(|e| !matches!(e, TEv::Info { .. })) {
        Some(TEv::Start { rule: r, pos: 0, .. }) if r == rule => {}
        other => return Err(fail("outermost trace entry is not the exported rule at offset 0", format!("Start({rule}, 0)"), format!("{:?}", other))),
    }
    if outer_ok != Some(obs.ok) {
        return Err(fail("outermost exit does not report the parse result", format!("{}", obs.ok), format!("{:?}", outer_ok)));
    }
    Ok(())
}

fn check_trace_vs_oracle(g: &GCtx, obs: &Obs, o: &Outcome) -> Result<(), Failure> {
    // no phantom entries: every (rule, pos) the implementation entered is one the PEG evaluation enters
    let oracle_starts: BTreeSet<(&str, usize)> = o
        .trace
        .iter()
        .filter_map(|e| match e {
            Ev::Start { rule, pos, .. } => Some((rule.as_str(), *pos)),
            _ => None,
        })
        .collect();
    for ev in &obs.trace {
        if let TEv::Start { rule, pos, .. } = ev {
            if !oracle_starts.contains(&(rule.as_str(), *pos)) {
                return Err(fail("trace reports a rule entry the PEG evaluation never makes", format!("{} entries", oracle_starts.len()), format!("Start({rule}, {pos})")));
            }
        }
    }
    if !g.has_memo && !g.has_leftrec {
        // every invocation on the successful path is reported, in order, with its result
        let want: Vec<(Option<(&str, usize)>, Option<bool>)> = o
            .trace
            .iter()
            .filter_map(|e| match e {
                Ev::Start { rule, pos, abandoned: false } => Some((Some((rule.as_str(), *pos)), None)),
                Ev::Result { ok, abandoned: false } => Some((None, Some(*ok))),
                _ => None,
            })
            .collect();
        let mut it = obs.trace.iter();
        'outer: for w in &want {
            for ev in it.by_ref() {
                match (w, ev) {
                    ((Some((r, p)), _), TEv::Start { rule, pos, .. }) if rule == r && pos == p => continue 'outer,
                    ((None, Some(ok)), TEv::Result { ok: ok2, .. }) if ok == ok2 => continue 'outer,
                    _ => {}
                }
            }
            return Err(fail("an invocation on the successful path is missing from the trace", format!("{:?}", w), format!("{} events", obs.trace.len())));
        }
    }
    Ok(())
}

fn check_hooks(g: &GCtx, input: &str, plain: &Obs, o: &Outcome) -> Result<(), Failure> {
    let min: BTreeSet<(&str, &str)> = o.hooks.iter().map(|h| (h.name.as_str(), h.arg.as_str())).collect();
    let mut max = min.clone();
    max.extend(o.hooks_optional.iter().map(|h| (h.name.as_str(), h.arg.as_str())));
    let got: BTreeSet<(&str, &str)> = plain.hooks.iter().map(|h| (h.name.as_str(), h.arg.as_str())).collect();
    for c in &got {
        // a @char check receives "the next character": which of the checks of nested classes are asked for a character
        // (all of them, only those of the class that matched, the outer ones first ...) is not specified, so any
        // character of the input is a possible argument
        if c.0.starts_with("cc_") && c.1.chars().count() == 1 && input.contains(c.1) {
            continue;
        }
        if !max.contains(c) {
            return Err(fail("user function called with an argument the documented semantics never passes", format!("{} predicted calls, e.g. {:?}", max.len(), max.iter().take(6).collect::<Vec<_>>()), format!("{:?}", c)));
        }
    }
    // What the statement fixes is the match decision (compared before this function runs) and the arguments. Whether a check
    // whose verdict cannot change the decision is called at all, and in which order several checks are asked, is not
    // specified (a behaviour-preserving change that asks @char checks only for characters of the class, or that does not
    // short-circuit, raised a false alarm here): extern functions, whose result IS the match, must be called.
    for c in &min {
        if !got.contains(c) && c.0.starts_with("ext_") && !g.has_memo && !g.has_leftrec {
            return Err(fail("a predicted extern function call was not made", format!("{:?}", c), format!("{} calls: {:?}", got.len(), got.iter().take(6).collect::<Vec<_>>())));
        }
    }
    // type of the check argument: the rule's own type
    for h in &plain.hooks {
        if h.ty.is_empty() {
            continue;
        }
        // several rules may call the same function with equally rendered values (e.g. a rule and an alias of it):
        // the type must fit one of them
        let cands: Vec<&str> = o.hooks.iter().chain(o.hooks_optional.iter()).filter(|x| x.name == h.name && x.arg == h.arg).map(|x| x.ty.as_str()).collect();
        if cands.is_empty() {
            continue;
        }
        let fits = |rule: &str| match g.shapes.kind(rule) {
            Some(Kind::Struct { .. }) | Some(Kind::Enum { .. }) | Some(Kind::StrPos) => h.ty.ends_with(&format!("::{}", rule)),
            Some(Kind::Str) => h.ty == "alloc::string::String",
            _ => true,
        };
        if !cands.iter().any(|r| fits(r)) {
            return Err(fail("check function received a value of another type than the rule's", format!("{:?}", cands), h.ty.clone()));
        }
    }
    if g.spec.cfg.user_ctx {
        let want: Vec<(&str, &str)> = plain.hooks.iter().filter(|h| !h.name.starts_with("cc_")).map(|h| (h.name.as_str(), h.arg.as_str())).collect();
        let got: Vec<(&str, &str)> = plain.ctx_calls.iter().map(|h| (h.name.as_str(), h.arg.as_str())).collect();
        if want != got {
            return Err(fail("calls recorded in the user context differ from the calls made", format!("{} calls", want.len()), format!("{} calls", got.len())));
        }
    }
    Ok(())
}

pub fn check_case(prop: &str, g: &GCtx, e: &RuleEntry, input: &str) -> Result<CaseOut, Failure> {
    let salt = salt_for(g, input);
    let o = oracle(g, e.rule, input, salt);
    let mut out = CaseOut::default();
    if o.diverged {
        out.skipped = Some("oracle_diverged");
        if let Ok(p) = std::env::var("VERIF_DEBUG_DIVERGED") {
            use std::io::Write;
            if let Ok(mut f) = std::fs::OpenOptions::new().create(true).append(true).open(p) {
                let _ = writeln!(f, "{}", serde_json::json!({"grammar": g.text, "rule": e.rule, "input": input}));
            }
        }
        return Ok(out);
    }
    let st = &o.stats;
    crate::set_fuel_from_oracle(st.rule_calls);
    match prop {
        "C01" | "C08" => {
            let rec = observe(e.parse, input, MODE_REC, salt);
            if is_fuel(&rec) {
                return Err(fail(format!("parse of rule {} on {:?} does not terminate (tracer fuel exhausted)", e.rule, input), oracle_summary(&o), rec.summary()));
            }
            let plain = observe(e.parse, input, MODE_PLAIN, salt);
            base_accept(g, e, input, &plain, &o)?;
            if prop == "C08" {
                base_value(e, input, &plain, &o)?;
                if st.ws_skipped > 0 {
                    out.classes.push("ws_skipped");
                }
                if st.near_miss_seen > 0 {
                    out.classes.push("near_miss");
                }
                if st.ws_nonempty_in_nested > 0 {
                    out.classes.push("ws_in_nested");
                }
                out.nontrivial = st.ws_nonempty_in_nested > 0 || st.near_miss_seen > 0 || (st.ws_skipped > 0 && g.mixed_ws);
            } else {
                if st.backtracks_after_progress > 0 {
                    out.classes.push("backtrack_after_progress");
                }
                if st.closure_partial_stop > 0 {
                    out.classes.push("closure_partial_stop");
                }
                if st.lookaheads > 0 {
                    out.classes.push("lookahead");
                }
                if st.range_endpoint_hits > 0 {
                    out.classes.push("range_endpoint");
                }
                if st.insensitive_hits > 0 {
                    out.classes.push("insensitive_case");
                }
                out.nontrivial = !out.classes.is_empty();
                if o.ok && st.max_rule_depth >= 100 {
                    out.classes.push("accepted_nesting>=100");
                }
                if o.ok && st.max_rule_depth >= 1000 {
                    out.classes.push("accepted_nesting>=1000");
                }
            }
            out.classes.push(if o.ok { "accept" } else { "reject" });
        }
        "C02" => {
            let plain = observe(e.parse, input, MODE_PLAIN, salt);
            if plain.panic.is_some() || plain.ok != o.ok {
                out.skipped = Some("acceptance_differs");
                return Ok(out);
            }
            base_value(e, input, &plain, &o)?;
            if o.ok {
                if st.abandoned_bindings > 0 {
                    out.classes.push("abandoned_bindings");
                }
                if st.multi_part_fields > 0 {
                    out.classes.push("multi_part_field");
                }
                if st.enum_fields_set > 0 {
                    out.classes.push("enum_field");
                }
                out.nontrivial = !out.classes.is_empty();
                out.classes.push("accept");
            }
        }
        "C04" => {
            for mode in [MODE_REC, MODE_PLAIN, MODE_INDENTED] {
                let obs = observe(e.parse, input, mode, salt);
                if is_fuel(&obs) {
                    out.skipped = Some("nontermination");
                    return Ok(out);
                }
                if let Some(p) = &obs.panic {
                    return Err(fail(format!("parser panicked (mode {mode}) on {:?}: {p}", input), "Ok or Err", obs.summary()));
                }
                check_offsets(input, &obs)?;
            }
            if st.multibyte_at_terminal > 0 {
                out.classes.push("multibyte_at_terminal");
                out.nontrivial = true;
            }
            if st.multibyte_consumed > 0 {
                out.classes.push("multibyte_consumed");
            }
        }
        "C09" => {
            let plain = observe(e.parse, input, MODE_PLAIN, salt);
            if plain.panic.is_some() || plain.ok != o.ok {
                out.skipped = Some("acceptance_differs");
                return Ok(out);
            }
            if plain.ok {
                let n = check_positions(input, &plain, e.rule, &g.shapes)?;
                base_value(e, input, &plain, &o)?;
                if n > 1 {
                    out.classes.push("nested_position_nodes");
                    if st.ws_skipped > 0 {
                        out.classes.push("ws_before_node");
                    }
                    if st.multibyte_consumed > 0 {
                        out.classes.push("multibyte_in_span");
                    }
                    if st.memo_revisits > 0 || st.growth_steps > 0 {
                        out.classes.push("cache_or_growth");
                    }
                    out.nontrivial = out.classes.len() > 1;
                }
            }
        }
        "C10" => {
            let plain = observe(e.parse, input, MODE_PLAIN, salt);
            if plain.panic.is_some() || plain.ok != o.ok {
                out.skipped = Some("acceptance_differs");
                return Ok(out);
            }
            if !plain.ok {
                check_error(g, input, &plain, &o)?;
                let positions: BTreeSet<usize> = o.all.iter().map(|(p, _)| *p).collect();
                if positions.len() >= 2 {
                    out.classes.push("several_failure_offsets");
                }
                if o.far.as_ref().map_or(false, |f| f.0 > 0) {
                    out.classes.push("furthest_beyond_0");
                }
                if st.lookaheads > 0 {
                    out.classes.push("lookahead");
                }
                out.nontrivial = positions.len() >= 2 && o.far.as_ref().map_or(false, |f| f.0 > 0);
            }
        }
        "C14" => {
            let plain = observe(e.parse, input, MODE_PLAIN, salt);
            base_accept(g, e, input, &plain, &o)?;
            base_value(e, input, &plain, &o)?;
            check_hooks(g, input, &plain, &o)?;
            if st.checks_called > 0 {
                out.classes.push("check_called");
            }
            if st.externs_called > 0 {
                out.classes.push("extern_called");
            }
            if st.hooks_failed > 0 {
                out.classes.push("hook_failed");
                out.nontrivial = true;
            }
        }
        "C19" => {
            let rec = observe(e.parse, input, MODE_REC, salt);
            if is_fuel(&rec) {
                out.skipped = Some("nontermination");
                return Ok(out);
            }
            let plain = observe(e.parse, input, MODE_PLAIN, salt);
            let ind = observe(e.parse, input, MODE_INDENTED, salt);
            for (name, obs) in [("custom tracer", &rec), ("parse_with_trace", &ind)] {
                if let Some(p) = &obs.panic {
                    if plain.panic.is_none() {
                        return Err(fail(format!("tracing ({name}) panicked on {:?}: {p}", input), plain.summary(), obs.summary()));
                    }
                }
                if obs.result_key() != plain.result_key() {
                    return Err(fail(format!("result with tracing ({name}) differs from the plain parse on {:?}", input), plain.summary(), obs.summary()));
                }
            }
            if plain.panic.is_none() {
                check_trace_balance(e.rule, &rec)?;
                // Which entries a correct implementation reports beyond balance is not specified (speculative attempts,
                // inlined rules, cache hits without an entry are all legitimate): agreement with the interpreter's own
                // entry list is recorded as a class, not demanded.
                if check_trace_vs_oracle(g, &rec, &o).is_ok() {
                    out.classes.push("trace_entries_match_reference_evaluation");
                }
            }
            let failing = rec.trace.iter().any(|t| matches!(t, TEv::Result { ok: false, .. }));
            let info = rec.trace.iter().any(|t| matches!(t, TEv::Info { .. }));
            if failing {
                out.classes.push("failing_rule");
            }
            if info {
                out.classes.push("cache_or_growth_info");
            }
            out.nontrivial = failing || info;
        }
        _ => panic!("check_case: unknown property {prop}"),
    }
    Ok(out)
}
