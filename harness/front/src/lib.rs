//! Engine E2 "front" as a library (shared by the `front` binary and the libFuzzer targets).
pub mod c04rt;
pub mod c11;
pub mod c12;
pub mod c15;
pub mod c16;
pub mod c18;
pub mod common;
