//! C12: grammar text is read into the structure its syntax denotes (round trip through the front end).
use crate::common::{Acc, Failure};
use peginator_codegen::grammar as pg;
use peginator_codegen::{CodegenGrammar, CodegenSettings};
use serde_json::json;
use std::str::FromStr;
use verif_core::gen::{self, Profile};
use verif_core::model::*;
use verif_core::printer;
use verif_core::util::Src;

/// peginator's public AST -> model
pub fn lift(g: &pg::Grammar) -> Result<Grammar, String> {
    let mut rules = vec![];
    for r in &g.rules {
        match r {
            pg::Grammar_rules::Rule(r) => {
                let mut directives = vec![];
                for d in &r.directives {
                    directives.push(match d {
                        pg::DirectiveExpression::StringDirective(_) => Directive::String,
                        pg::DirectiveExpression::NoSkipWsDirective(_) => Directive::NoSkipWs,
                        pg::DirectiveExpression::ExportDirective(_) => Directive::Export,
                        pg::DirectiveExpression::PositionDirective(_) => Directive::Position,
                        pg::DirectiveExpression::MemoizeDirective(_) => Directive::Memoize,
                        pg::DirectiveExpression::LeftrecDirective(_) => Directive::Leftrec,
                        pg::DirectiveExpression::CheckDirective(c) => Directive::Check(c.function.clone()),
                    });
                }
                // (the flags the code generator derives from the directives are its internal API: a misread directive shows in
                // the generated code instead, which case_info compares between the canonical and the varied layout)
                rules.push(RuleDef::Normal(NormalRule { name: r.name.clone(), directives, body: lift_choice(&r.definition)? }));
            }
            pg::Grammar_rules::CharRule(c) => {
                // the AST does not keep which checks came before @char: all go to checks_before
                let mut parts = vec![];
                for p in &c.choices {
                    parts.push(match p {
                        pg::CharRulePart::CharacterRange(r) => CharPart::Range(item(&r.from)?, item(&r.to)?),
                        pg::CharRulePart::CharRangePart(i) => CharPart::Char(item(i)?),
                        pg::CharRulePart::Identifier(n) => CharPart::Class(n.clone()),
                    });
                }
                rules.push(RuleDef::CharClass(CharRule {
                    name: c.name.clone(),
                    checks_before: c.directives.iter().map(|d| d.function.clone()).collect(),
                    checks_after: vec![],
                    parts,
                }));
            }
            pg::Grammar_rules::ExternRule(e) => rules.push(RuleDef::Extern(ExternRule {
                name: e.name.clone(),
                function: e.directive.function.clone(),
                ret: e.directive.return_type.clone(),
            })),
        }
    }
    Ok(Grammar { rules })
}

fn item(i: &pg::StringItem) -> Result<char, String> {
    char::try_from(i).map_err(|e| e.to_string())
}

fn lift_choice(c: &pg::Choice) -> Result<Expr, String> {
    let mut arms = vec![];
    for s in &c.choices {
        arms.push(lift_seq(s)?);
    }
    Ok(if arms.len() == 1 { arms.pop().unwrap() } else { Expr::Choice(arms) })
}

fn lift_seq(s: &pg::Sequence) -> Result<Expr, String> {
    let mut parts = vec![];
    for p in &s.parts {
        parts.push(lift_delim(p)?);
    }
    Ok(if parts.len() == 1 { parts.pop().unwrap() } else { Expr::Seq(parts) })
}

fn lift_delim(d: &pg::DelimitedExpression) -> Result<Expr, String> {
    Ok(match d {
        pg::DelimitedExpression::Group(g) => Expr::Group(Box::new(lift_choice(&g.body)?)),
        pg::DelimitedExpression::Optional(o) => Expr::Opt(Box::new(lift_choice(&o.body)?)),
        pg::DelimitedExpression::Closure(c) => {
            let b = Box::new(lift_choice(&c.body)?);
            if c.at_least_one.is_some() {
                Expr::Plus(b)
            } else {
                Expr::Star(b)
            }
        }
        pg::DelimitedExpression::NegativeLookahead(n) => Expr::Not(Box::new(lift_delim(&n.expr)?)),
        pg::DelimitedExpression::PositiveLookahead(n) => Expr::And(Box::new(lift_delim(&n.expr)?)),
        pg::DelimitedExpression::CharacterRange(r) => Expr::Range(item(&r.from)?, item(&r.to)?),
        pg::DelimitedExpression::StringLiteral(l) => {
            let mut s = String::new();
            for i in &l.body {
                s.push(item(i)?);
            }
            Expr::Lit { s, insensitive: l.insensitive.is_some() }
        }
        pg::DelimitedExpression::EndOfInput(_) => Expr::Eoi,
        pg::DelimitedExpression::IncludeRule(i) => Expr::Include(i.rule.clone()),
        pg::DelimitedExpression::Field(f) => Expr::Ref {
            field: match &f.name {
                None => FieldName::None,
                Some(pg::Field_name::Identifier(n)) => FieldName::Named(n.clone()),
                Some(pg::Field_name::OverrideMarker(_)) => FieldName::Override,
            },
            boxed: f.boxed.is_some(),
            typ: f.typ.clone(),
        },
    })
}

/// what the round trip compares: char-rule checks are order-merged (the AST has one list)
fn canon(g: &Grammar) -> Grammar {
    let mut g = g.clone();
    for r in &mut g.rules {
        if let RuleDef::CharClass(c) = r {
            let mut all = std::mem::take(&mut c.checks_before);
            all.extend(std::mem::take(&mut c.checks_after));
            c.checks_before = all;
        }
    }
    g
}

fn strip(g: &Grammar) -> Grammar {
    let mut g = canon(g);
    for r in &mut g.rules {
        if let RuleDef::Normal(n) = r {
            let b = std::mem::replace(&mut n.body, Expr::Eoi);
            n.body = b.strip_groups();
        }
    }
    g
}

fn first_diff(a: &Grammar, b: &Grammar) -> String {
    if a.rules.len() != b.rules.len() {
        return format!("{} rules vs {}", a.rules.len(), b.rules.len());
    }
    for (x, y) in a.rules.iter().zip(&b.rules) {
        if x != y {
            return format!("rule {}: {:?}  VS  {:?}", x.name(), x, y);
        }
    }
    "equal".into()
}

/// extra literal-heavy rules so every escape form gets exercised for characters of all ranges
fn escape_rules(src: &mut Src) -> Vec<RuleDef> {
    let pool: &[char] = &[
        'a', 'Z', '0', ' ', '~', '\n', '\r', '\t', '\\', '\'', '"', '\0', '\u{1}', '\u{7f}', '\u{80}', '\u{ff}', '\u{100}', '\u{7ff}', '\u{800}', 'é',
        '\u{d7ff}', '\u{e000}', '\u{fffd}', '\u{ffff}', '\u{10000}', '🙂', '\u{10ffff}', '#', ';', '|', '{', ']', '\u{a}', '\u{1b}',
        // Latin-1 characters whose code points look like UTF-8 lead / continuation bytes
        '\u{c3}', '\u{a9}', '\u{c2}', '\u{a0}', '\u{e2}', '\u{82}', '\u{ac}', '\u{f0}', '\u{9f}', '\u{99}',
    ];
    // "mojibake": the Latin-1 reading of the UTF-8 bytes of a multi-byte character (\xC3\xA9 is two characters, not é)
    let mojibake: &[&str] = &["\u{c3}\u{a9}", "\u{e2}\u{82}\u{ac}", "\u{f0}\u{9f}\u{99}\u{82}", "\u{c2}\u{a0}x", "a\u{c3}\u{9f}", "\u{df}\u{bf}"];
    let mut out = vec![];
    let n = src.range(0, 3);
    for k in 0..n {
        let len = src.range(1, 6);
        let mut s = String::new();
        if src.chance(50) {
            s.push_str(*src.choose(mojibake));
        }
        for _ in 0..len {
            s.push(*src.choose(pool));
        }
        let (a, b) = {
            let x = *src.choose(pool);
            let y = *src.choose(pool);
            if x <= y {
                (x, y)
            } else {
                (y, x)
            }
        };
        let insensitive = s.is_ascii() && src.chance(60);
        out.push(RuleDef::Normal(NormalRule {
            name: format!("Esc{k}"),
            directives: vec![],
            body: Expr::Seq(vec![Expr::Lit { s, insensitive }, Expr::Range(a, b)]),
        }));
        if src.chance(100) {
            out.push(RuleDef::CharClass(CharRule {
                name: format!("EscC{k}"),
                checks_before: if src.chance(80) { vec![vec!["crate".into(), "chk".into()]] } else { vec![] },
                checks_after: if src.chance(80) { vec![vec!["a".into(), "b".into(), "c".into()], vec!["x".into()]] } else { vec![] },
                parts: vec![CharPart::Char(*src.choose(pool)), CharPart::Range(a, b), CharPart::Class(format!("Esc{k}"))],
            }));
        }
    }
    out
}

pub fn build_model(src: &mut Src) -> Grammar {
    let profs = ["core", "fields", "mixed", "hooks", "ws", "types", "include"];
    let mut g = None;
    for _ in 0..20 {
        let p = Profile::by_name(*src.choose(&profs)).unwrap();
        let mut bytes = vec![];
        for _ in 0..260 {
            bytes.push(src.byte());
        }
        if let Ok(x) = gen::generate(&bytes, &p) {
            g = Some(x);
            break;
        }
    }
    let mut g = g.unwrap_or_default();
    g.rules.extend(escape_rules(src));
    // extra syntactic shapes: lookaheads applied to groups inside sequences, empty alternatives, nested prefix operators
    if src.chance(120) {
        g.rules.push(RuleDef::Normal(NormalRule {
            name: "Shape".into(),
            directives: vec![Directive::Check(vec!["crate".into(), "f".into()]), Directive::Position, Directive::Check(vec!["g".into()])],
            body: Expr::Choice(vec![
                Expr::Seq(vec![
                    Expr::lit("a"),
                    Expr::Not(Box::new(Expr::Group(Box::new(Expr::Choice(vec![Expr::lit("b"), Expr::Seq(vec![Expr::lit("c"), Expr::lit("d")])]))))),
                    Expr::And(Box::new(Expr::Not(Box::new(Expr::lit("e"))))),
                    Expr::named("x", "char"),
                ]),
                Expr::Seq(vec![]),
            ]),
        }));
    }
    g.normalize()
}

pub struct CaseInfo {
    pub text: String,
    pub classes: Vec<&'static str>,
    pub nontrivial: bool,
}

/// one round-trip case decoded from choice bytes: Ok(info) or Err(violation record)
pub fn case_info(bytes: &[u8]) -> Result<CaseInfo, (Failure, serde_json::Value)> {
    let mut src = Src::new(bytes);
    let model = build_model(&mut src);
    let parens = src.chance(128);
    let (text, stats) = printer::print_with(&model, &mut src, parens);
    let fail = |f: Failure, text: &str| {
        (f.clone(), json!({"property": "C12", "kind": "roundtrip", "text": text, "model": model, "message": f.msg, "expected": f.expected, "observed": f.observed}))
    };
    let parsed = match pg::Grammar::from_str(&text) {
        Ok(p) => p,
        Err(e) => {
            return Err(fail(Failure::new(format!("a grammar text following the syntax reference is rejected: {:?}", e), "parses", format!("{:?}", e)), &text));
        }
    };
    let lifted = match lift(&parsed) {
        Ok(l) => l,
        Err(e) => return Err(fail(Failure::new(format!("parsed grammar cannot be decoded: {e}"), "decodable", e.clone()), &text)),
    };
    let (want, got) = if parens { (strip(&model), strip(&lifted)) } else { (canon(&model), canon(&lifted)) };
    if want != got {
        return Err(fail(Failure::new("grammar text is read into a different structure than it denotes", first_diff(&want, &got), String::new()), &text));
    }
    // second relation: two layouts of one model generate byte-identical code
    let mut classes: Vec<&'static str> = vec![];
    if src.chance(40) {
        let canon_text = printer::print_canonical(&model);
        let settings = CodegenSettings::default();
        let a = pg::Grammar::from_str(&canon_text).ok().and_then(|g| verif_core::util::catch(|| g.generate_code(&settings).ok().map(|t| t.to_string())).ok().flatten());
        let b = verif_core::util::catch(|| parsed.generate_code(&settings).ok().map(|t| t.to_string())).ok().flatten();
        if !parens && a != b {
            return Err(fail(Failure::new("two layouts of the same grammar generate different code", "identical code", "different code"), &text));
        }
        classes.push("two_layout_codegen");
    }
    // third relation: "directives in any order" - the same rules with the flag directives moved in front of the @check
    // directives (checks keep their relative order) denote the same grammar, so they generate the same code
    if src.chance(70) {
        if let Some(m) = directive_order_mismatch(&model) {
            return Err(fail(Failure::new(m, "identical code", "different code"), &text));
        }
        if model.normals().any(|n| matches!(n.directives.first(), Some(Directive::Check(_))) && n.directives.iter().any(|d| !matches!(d, Directive::Check(_)))) {
            classes.push("flag_after_check");
        }
    }
    if stats.comments_in_expr > 0 {
        classes.push("comment_in_expr");
    }
    if stats.comments_with_lone_cr > 0 {
        classes.push("comment_with_lone_cr");
    }
    if stats.nonraw_escapes > 0 {
        classes.push("nonraw_escape");
    }
    if stats.extra_parens > 0 {
        classes.push("extra_parens");
    }
    if stats.dquotes > 0 {
        classes.push("double_quotes");
    }
    const KINDS: [&str; 7] = ["esc_raw", "esc_simple", "esc_x", "esc_u4", "esc_U8", "esc_brace_min", "esc_brace_padded"];
    for (i, k) in stats.escape_kinds.iter().enumerate() {
        if *k > 0 {
            classes.push(KINDS[i]);
        }
    }
    let nontrivial = stats.comments_in_expr > 0 || stats.nonraw_escapes > 0 || stats.extra_parens > 0;
    Ok(CaseInfo { text, classes, nontrivial })
}

fn flags_first(model: &Grammar) -> Grammar {
    let mut g = model.clone();
    for r in &mut g.rules {
        if let RuleDef::Normal(n) = r {
            let (checks, mut flags): (Vec<Directive>, Vec<Directive>) = n.directives.drain(..).partition(|d| matches!(d, Directive::Check(_)));
            flags.sort_by_key(|d| format!("{:?}", d));
            flags.dedup();
            flags.extend(checks);
            n.directives = flags;
        }
    }
    g
}

/// Some(message) when the canonical text and the flags-first text of one model are both accepted but give different code
fn directive_order_mismatch(model: &Grammar) -> Option<String> {
    let settings = CodegenSettings::default();
    let code = |g: &Grammar| -> Option<String> {
        let t = printer::print_canonical(g);
        pg::Grammar::from_str(&t).ok().and_then(|p| verif_core::util::catch(|| p.generate_code(&settings).ok().map(|t| t.to_string())).ok().flatten())
    };
    let ff = flags_first(model);
    if ff == *model {
        return None;
    }
    match (code(model), code(&ff)) {
        (Some(a), Some(b)) if a != b => Some("the order of the directives of a rule changes the generated code (flag directives written after @check)".to_string()),
        (Some(_), None) | (None, Some(_)) => Some("the order of the directives of a rule decides whether the grammar is accepted".to_string()),
        _ => None,
    }
}

pub fn one_case(bytes: &[u8]) -> Result<(), serde_json::Value> {
    case_info(bytes).map(|_| ()).map_err(|e| e.1)
}

pub fn run(seed: u64, cases: u32, out: &str) {
    let mut acc = Acc::new("C12");
    crate::common::run_bytes(seed, "C12", cases, 900, &mut acc, |bytes, acc| {
        let info = case_info(bytes)?;
        acc.ok(&info.text, info.nontrivial, &info.classes, || json!({"text": info.text}));
        Ok(())
    });
    acc.write(out);
}

pub fn replay(rec: &serde_json::Value) -> Option<serde_json::Value> {
    let text = rec["text"].as_str()?;
    let model: Grammar = serde_json::from_value(rec["model"].clone()).ok()?;
    let bad = |m: &str| Some(json!({"property": "C12", "kind": "roundtrip", "text": text, "message": m}));
    let parsed = match pg::Grammar::from_str(text) {
        Ok(p) => p,
        Err(e) => return bad(&format!("rejected: {:?}", e)),
    };
    let lifted = match lift(&parsed) {
        Ok(l) => l,
        Err(e) => return bad(&e),
    };
    if strip(&model) != strip(&lifted) {
        return bad("grammar text is read into a different structure than it denotes");
    }
    if let Some(m) = directive_order_mismatch(&model) {
        return bad(&m);
    }
    let settings = CodegenSettings::default();
    let a = pg::Grammar::from_str(&printer::print_canonical(&model)).ok().and_then(|g| verif_core::util::catch(|| g.generate_code(&settings).ok().map(|t| t.to_string())).ok().flatten());
    let b = verif_core::util::catch(|| parsed.generate_code(&settings).ok().map(|t| t.to_string())).ok().flatten();
    if canon(&model) == canon(&lifted) && a != b {
        return bad("two layouts of the same grammar generate different code");
    }
    None
}
