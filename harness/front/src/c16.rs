//! Helpers for C16/C15/C17 that run in fresh processes: library-route code generation, build-script route,
//! run_exit_on_error, generation of accepted grammars and of grammar text corpora.
use peginator_codegen::{generate_source_header, CodegenGrammar, CodegenSettings, Compile, Grammar as PGrammar};
use serde_json::json;
use std::str::FromStr;
use verif_core::gen::{self, Profile};
use verif_core::printer;

fn arg(args: &[String], name: &str) -> Option<String> {
    args.iter().position(|a| a == name).and_then(|i| args.get(i + 1).cloned())
}

fn derives_of(args: &[String]) -> Vec<String> {
    match arg(args, "--derives") {
        Some(d) if d == "-" => vec![],
        Some(d) => d.split(',').filter(|x| !x.is_empty()).map(|x| x.to_string()).collect(),
        None => vec!["Debug".into(), "Clone".into()],
    }
}

/// `front codegen <file> [--derives a,b] [--header]` : library route; prints the code (exit 1 + message on error)
pub fn codegen(args: &[String]) {
    let text = std::fs::read_to_string(&args[2]).unwrap();
    let settings = CodegenSettings { derives: derives_of(args), ..Default::default() };
    let g = match PGrammar::from_str(&text) {
        Ok(g) => g,
        Err(e) => {
            eprintln!("parse error: {:?}", e);
            std::process::exit(1);
        }
    };
    match g.generate_code(&settings) {
        Ok(ts) => {
            if args.iter().any(|a| a == "--header") {
                println!("{}", generate_source_header(&text));
            }
            // twice in one process must be identical
            let a = ts.to_string();
            let b = g.generate_code(&settings).unwrap().to_string();
            if a != b {
                eprintln!("NONDETERMINISTIC within one process");
                std::process::exit(3);
            }
            print!("{}", a);
        }
        Err(e) => {
            eprintln!("codegen error: {:#}", e);
            std::process::exit(1);
        }
    }
}

/// `front buildscript <file> <dest> [--prefix p] [--derives a,b]` : Compile::file(..).destination(..).prefix(..).run()
pub fn buildscript(args: &[String]) {
    let mut c = Compile::file(&args[2]).destination(&args[3]).derives(derives_of(args));
    if let Some(p) = arg(args, "--prefix") {
        c = c.prefix(p);
    }
    match c.run() {
        Ok(()) => {}
        Err(e) => {
            eprintln!("error: {:#}", e);
            std::process::exit(1);
        }
    }
}

/// `front exit-on-error <file> <dest>` : the documented build-script entry point
pub fn exit_on_error(args: &[String]) {
    Compile::file(&args[2]).destination(&args[3]).run_exit_on_error();
}

/// accepted grammars for C16: biased to multi-type fields / several memoized rules / many rules
pub fn gen(seed: u64, count: u32, dir: &str) {
    std::fs::create_dir_all(dir).unwrap();
    let profs = ["types", "memo", "mixed", "fields", "hooks"];
    let derive_sets: [&str; 4] = ["Debug,Clone", "Debug,Clone,PartialEq,Eq", "Clone", "-"];
    let mut index = vec![];
    let mut k = 0u64;
    let mut n = 0;
    while n < count && k < count as u64 * 40 {
        let mut prof = Profile::by_name(profs[(k % profs.len() as u64) as usize]).unwrap();
        prof.max_rules = 9;
        let bytes = verif_core::plans::rng_bytes(seed, "C16", k, 700);
        k += 1;
        let g = match gen::generate(&bytes, &prof) {
            Ok(g) => g,
            Err(_) => continue,
        };
        let ds = derive_sets[(k % 4) as usize];
        let has_memo = g.normals().any(|r| r.memoize());
        if has_memo && !ds.contains("Clone") {
            continue;
        }
        // a third of the grammars in a random layout (raw control characters inside literals, comments, CRLF line ends),
        // and some with an extra rule whose literals contain raw CR LF / TAB / NBSP sequences
        let mut text = if k % 3 == 0 {
            let lb = verif_core::plans::rng_bytes(seed, "C16-layout", k, 400);
            let mut src = verif_core::util::Src::new(&lb);
            printer::print_with(&g, &mut src, false).0
        } else {
            printer::print_canonical(&g)
        };
        if k % 4 == 1 {
            text.push_str("RawCtl = 'a\r\nb' \"\t\r\n\" '\u{a0}\r' | '\n\r';\r\n");
        }
        let derives: Vec<String> = if ds == "-" { vec![] } else { ds.split(',').map(|s| s.to_string()).collect() };
        let settings = CodegenSettings { derives, ..Default::default() };
        let code = match PGrammar::from_str(&text).ok().and_then(|p| p.generate_code(&settings).ok()) {
            Some(c) => c.to_string(),
            None => continue,
        };
        let multi_type = code.contains("# [allow (non_camel_case_types)]");
        let caches = code.matches("CacheEntries <").count();
        let path = format!("{dir}/g{:04}.ebnf", n);
        std::fs::write(&path, &text).unwrap();
        index.push(json!({"file": path, "derives": ds, "multi_type_field": multi_type, "cache_entries": caches, "rules": g.rules.len(),
            "code_hash": format!("{:016x}", verif_core::util::fnv64(code.as_bytes())), "header": generate_source_header(&text)}));
        n += 1;
    }
    std::fs::write(format!("{dir}/index.json"), serde_json::to_string(&index).unwrap()).unwrap();
}

/// corpus of grammar texts of all C12/C15 classes (for the C17 differential and as fuzz seeds)
pub fn texts(seed: u64, count: u32, dir: &str) {
    std::fs::create_dir_all(dir).unwrap();
    let mut list = vec![];
    for k in 0..count as u64 {
        let bytes = verif_core::plans::rng_bytes(seed, "texts", k, 700);
        let c = verif_core::texts::case(&bytes);
        list.push(json!({"class": format!("{:?}", c.class), "text": c.text}));
    }
    std::fs::write(format!("{dir}/texts.json"), serde_json::to_string(&list).unwrap()).unwrap();
}
