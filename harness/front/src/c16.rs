//! Helpers for C16/C15/C17 that run in fresh processes: library-route code generation, build-script route,
//! run_exit_on_error, generation of accepted grammars and of grammar text corpora.
use peginator_codegen::{generate_source_header, CodegenGrammar, CodegenSettings, Compile, Grammar as PGrammar};
use serde_json::json;
use std::str::FromStr;
use verif_core::gen::{self, Profile};
use verif_core::printer;

fn arg(args: &[String], name: &str) -> Option<String> {
    args.iter().position(|a| a == name).and_then(|i| args.get(i + 1).cloned())
}

fn derives_of(args: &[String]) -> Vec<String> {
    match arg(args, "--derives") {
        Some(d) if d == "-" => vec![],
        Some(d) => d.split(',').filter(|x| !x.is_empty()).map(|x| x.to_string()).collect(),
        None => vec!["Debug".into(), "Clone".into()],
    }
}

/// `front codegen <file> [--derives a,b] [--header]` : library route; prints the code (exit 1 + message on error)
pub fn codegen(args: &[String]) {
    let text = std::fs::read_to_string(&args[2]).unwrap();
    let settings = CodegenSettings { derives: derives_of(args), ..Default::default() };
    let g = match PGrammar::from_str(&text) {
        Ok(g) => g,
        Err(e) => {
            eprintln!("parse error: {:?}", e);
            std::process::exit(1);
        }
    };
    match g.generate_code(&settings) {
        Ok(ts) => {
            if args.iter().any(|a| a == "--header") {
                println!("{}", generate_source_header(&text));
            }
            // twice in one process must be identical
            let a = ts.to_string();
            let b = g.generate_code(&settings).unwrap().to_string();
            if a != b {
                eprintln!("NONDETERMINISTIC within one process");
                std::process::exit(3);
            }
            print!("{}", a);
        }
        Err(e) => {
            eprintln!("codegen error: {:#}", e);
            std::process::exit(1);
        }
    }
}

/// `front buildscript <file> <dest> [--prefix p] [--derives a,b]` : Compile::file(..).destination(..).prefix(..).run()
pub fn buildscript(args: &[String]) {
    let mut c = Compile::file(&args[2]).destination(&args[3]).derives(derives_of(args));
    if let Some(p) = arg(args, "--prefix") {
        c = c.prefix(p);
    }
    match c.run() {
        Ok(()) => {}
        Err(e) => {
            eprintln!("error: {:#}", e);
            std::process::exit(1);
        }
    }
}

/// `front exit-on-error <file> <dest>` : the documented build-script entry point
pub fn exit_on_error(args: &[String]) {
    Compile::file(&args[2]).destination(&args[3]).run_exit_on_error();
}

/// accepted grammars for C16: biased to multi-type fields / several memoized rules / many rules
pub fn gen(seed: u64, count: u32, dir: &str, repo: Option<&str>) {
    std::fs::create_dir_all(dir).unwrap();
    let profs = ["types", "memo", "mixed", "fields", "hooks"];
    let derive_sets: [&str; 4] = ["Debug,Clone", "Debug,Clone,PartialEq,Eq", "Clone", "-"];
    let mut index = vec![];
    let mut k = 0u64;
    let mut n = 0;
    while n < count && k < count as u64 * 40 {
        let mut prof = Profile::by_name(profs[(k % profs.len() as u64) as usize]).unwrap();
        prof.max_rules = 9;
        let bytes = verif_core::plans::rng_bytes(seed, "C16", k, 700);
        k += 1;
        let g = match gen::generate(&bytes, &prof) {
            Ok(g) => g,
            Err(_) => continue,
        };
        let ds = derive_sets[(k % 4) as usize];
        let has_memo = g.normals().any(|r| r.memoize());
        if has_memo && !ds.contains("Clone") {
            continue;
        }
        // a third of the grammars in a random layout (raw control characters inside literals, comments, CRLF line ends),
        // and some with an extra rule whose literals contain raw CR LF / TAB / NBSP sequences
        let mut text = if k % 3 == 0 {
            let lb = verif_core::plans::rng_bytes(seed, "C16-layout", k, 400);
            let mut src = verif_core::util::Src::new(&lb);
            printer::print_with(&g, &mut src, false).0
        } else {
            printer::print_canonical(&g)
        };
        if k % 4 == 1 {
            text.push_str("RawCtl = 'a\r\nb' \"\t\r\n\" '\u{a0}\r' | '\n\r';\r\n");
        }
        let derives: Vec<String> = if ds == "-" { vec![] } else { ds.split(',').map(|s| s.to_string()).collect() };
        let settings = CodegenSettings { derives, ..Default::default() };
        let code = match PGrammar::from_str(&text).ok().and_then(|p| p.generate_code(&settings).ok()) {
            Some(c) => c.to_string(),
            None => continue,
        };
        let multi_type = code.contains("# [allow (non_camel_case_types)]");
        let caches = code.matches("CacheEntries <").count();
        let path = format!("{dir}/g{:04}.ebnf", n);
        std::fs::write(&path, &text).unwrap();
        let broken = write_broken(&g, &path);
        index.push(json!({"file": path, "derives": ds, "multi_type_field": multi_type, "cache_entries": caches, "rules": g.rules.len(), "broken": broken,
            "code_hash": format!("{:016x}", verif_core::util::fnv64(code.as_bytes())), "header": generate_source_header(&text)}));
        n += 1;
    }
    // the repository's own grammar files that the generator accepts (grammar.ebnf first), with broken variants of their
    // lifted models
    if let Some(repo) = repo {
        let mut files = vec![];
        collect_ebnf(std::path::Path::new(repo), &mut files);
        files.sort();
        files.sort_by_key(|f| !f.ends_with("/grammar.ebnf") || f.contains("/test/"));
        for (i, f) in files.iter().enumerate() {
            let text = match std::fs::read_to_string(f) {
                Ok(t) => t,
                Err(_) => continue,
            };
            let settings = CodegenSettings::default();
            let parsed = match PGrammar::from_str(&text) {
                Ok(p) => p,
                Err(_) => continue,
            };
            let code = match parsed.generate_code(&settings) {
                Ok(c) => c.to_string(),
                Err(_) => continue,
            };
            let path = format!("{dir}/r{:04}.ebnf", i);
            std::fs::write(&path, &text).unwrap();
            let broken = match crate::c12::lift(&parsed) {
                Ok(m) => write_broken(&m, &path),
                Err(_) => vec![],
            };
            index.push(json!({"file": path, "derives": "Debug,Clone", "multi_type_field": code.contains("# [allow (non_camel_case_types)]"),
                "cache_entries": code.matches("CacheEntries <").count(), "rules": 0, "broken": broken, "repo_file": f,
                "code_hash": format!("{:016x}", verif_core::util::fnv64(code.as_bytes())), "header": generate_source_header(&text)}));
        }
    }
    std::fs::write(format!("{dir}/index.json"), serde_json::to_string(&index).unwrap()).unwrap();
}

fn collect_ebnf(dir: &std::path::Path, out: &mut Vec<String>) {
    let rd = match std::fs::read_dir(dir) {
        Ok(r) => r,
        Err(_) => return,
    };
    for e in rd.flatten() {
        let p = e.path();
        let name = e.file_name().to_string_lossy().to_string();
        if p.is_dir() {
            if name != "target" && name != ".git" {
                collect_ebnf(&p, out);
            }
        } else if name.ends_with(".ebnf") {
            out.push(p.to_string_lossy().to_string());
        }
    }
}

/// Variants of `g` that the generator must reject *while generating a rule*: a rule body followed by a non-ASCII
/// case-insensitive literal, or by a lookahead around a named field. Rules with a multi-alternative choice first (that is
/// where generator-internal state is built up before the error), the first rule of the grammar first. Written next to
/// `path`; never compiled here (the history process does that).
fn write_broken(g: &verif_core::model::Grammar, path: &str) -> Vec<String> {
    use verif_core::model::{Expr, RuleDef};
    let mut cands: Vec<(bool, usize)> = vec![];
    for (i, r) in g.rules.iter().enumerate() {
        if let RuleDef::Normal(n) = r {
            let mut multi = false;
            n.body.walk(&mut |e| {
                if let Expr::Choice(v) = e {
                    if v.len() >= 2 {
                        multi = true
                    }
                }
            });
            cands.push((!multi, i));
        }
    }
    cands.sort();
    let mut out = vec![];
    for (k, (_, i)) in cands.into_iter().take(3).enumerate() {
        let mut b = g.clone();
        if let RuleDef::Normal(n) = &mut b.rules[i] {
            let body = std::mem::replace(&mut n.body, Expr::Seq(vec![]));
            let poison = if k % 2 == 0 {
                Expr::Lit { s: "é".into(), insensitive: true }
            } else {
                Expr::Not(Box::new(Expr::named("zz_in_lookahead", &n.name.clone())))
            };
            n.body = Expr::Seq(vec![Expr::Group(Box::new(body)), poison]);
        }
        let p = format!("{}.broken{}", path, k);
        std::fs::write(&p, printer::print_canonical(&b)).unwrap();
        out.push(p);
    }
    out
}

/// C16 as a history property: within ONE process, compile a generated sequence of grammar texts - accepted ones and
/// variants the generator rejects half-way through a rule - and require that every accepted text yields exactly the
/// code a fresh process produced for it (`<file>.code`, written by the driver), whatever was compiled before.
pub fn history(seed: u64, cases: u32, dir: &str, out: &str) {
    use crate::common::{run_bytes, Acc, Failure};
    let index: Vec<serde_json::Value> = serde_json::from_str(&std::fs::read_to_string(format!("{dir}/index.json")).unwrap()).unwrap();
    struct G {
        text: String,
        derives: Vec<String>,
        expected: String,
        broken: Vec<String>,
    }
    let mut pool = vec![];
    for g in &index {
        let file = g["file"].as_str().unwrap();
        let expected = match std::fs::read_to_string(format!("{file}.code")) {
            Ok(c) => c,
            Err(_) => continue,
        };
        let ds = g["derives"].as_str().unwrap();
        pool.push(G {
            text: std::fs::read_to_string(file).unwrap(),
            derives: if ds == "-" { vec![] } else { ds.split(',').map(|s| s.to_string()).collect() },
            expected,
            broken: g["broken"].as_array().map(|a| a.iter().filter_map(|p| std::fs::read_to_string(p.as_str().unwrap()).ok()).collect()).unwrap_or_default(),
        });
    }
    let mut acc = Acc::new("C16");
    if pool.is_empty() {
        acc.write(out);
        return;
    }
    let compile = |text: &str, derives: &[String]| -> Result<String, String> {
        let settings = CodegenSettings { derives: derives.to_vec(), ..Default::default() };
        match verif_core::util::catch(|| PGrammar::from_str(text).map_err(|e| format!("{e:?}")).and_then(|g| g.generate_code(&settings).map(|t| t.to_string()).map_err(|e| format!("{e:#}")))) {
            Ok(r) => r,
            Err(_) => Err("panic".into()),
        }
    };
    run_bytes(seed, "C16-history", cases, 64, &mut acc, |bytes, acc| {
        let mut src = verif_core::util::Src::new(bytes);
        let nops = 1 + src.weighted(&[2, 4, 4, 3, 2, 1]);
        // ops: (grammar index, Some(broken variant) | None)
        let mut ops: Vec<(usize, Option<usize>)> = vec![];
        for _ in 0..nops {
            let i = src.pick(pool.len());
            match src.weighted(&[3, 5, 5, 2]) {
                0 => ops.push((i, None)),
                1 if !pool[i].broken.is_empty() => {
                    // the rejected variant, then the grammar it was derived from
                    let j = src.pick(pool[i].broken.len());
                    let reps = 1 + src.weighted(&[6, 2, 1]);
                    for _ in 0..reps {
                        ops.push((i, Some(j)));
                    }
                    ops.push((i, None));
                }
                2 if !pool[i].broken.is_empty() => {
                    let j = src.pick(pool[i].broken.len());
                    ops.push((i, Some(j)));
                    ops.push((src.pick(pool.len()), None));
                }
                _ => {
                    ops.push((i, None));
                    ops.push((i, None));
                }
            }
        }
        let mut rejected_before_accept = false;
        let mut any_rejected = false;
        let mut texts = vec![];
        // one in eight steps runs on a thread of its own (a result must not depend on the thread either)
        let on_thread: Vec<bool> = ops.iter().map(|_| src.chance(32)).collect();
        let mut used_thread = false;
        for (step, (i, b)) in ops.iter().enumerate() {
            let g = &pool[*i];
            let text = match b {
                Some(j) => &g.broken[*j],
                None => &g.text,
            };
            texts.push(json!({"text": text, "derives": g.derives, "broken_variant": b.is_some(), "on_new_thread": on_thread[step]}));
            let r = if on_thread[step] {
                used_thread = true;
                std::thread::scope(|sc| sc.spawn(|| compile(text, &g.derives)).join().unwrap_or_else(|_| Err("panic".into())))
            } else {
                compile(text, &g.derives)
            };
            match (b, r) {
                (Some(_), Err(_)) => any_rejected = true,
                (Some(_), Ok(_)) => {}
                (None, Ok(code)) => {
                    if any_rejected {
                        rejected_before_accept = true;
                    }
                    if code != g.expected {
                        let at = code.bytes().zip(g.expected.bytes()).position(|(a, b)| a != b).unwrap_or(code.len().min(g.expected.len()));
                        let lo = at.saturating_sub(80);
                        let cut = |s: &str| -> String { s.chars().skip(s[..lo.min(s.len())].chars().count()).take(200).collect() };
                        let f = Failure::new(
                            format!("step {} of a compile history in one process: the code for an accepted grammar differs from what a fresh process generates", step),
                            cut(&g.expected),
                            cut(&code),
                        );
                        return Err((f.clone(), json!({"property": "C16", "kind": "history", "signature": "route:history", "ops": texts, "failing_step": step,
                            "message": f.msg, "expected": f.expected, "observed": f.observed})));
                    }
                }
                (None, Err(e)) => {
                    let f = Failure::new(format!("step {} of a compile history in one process: an accepted grammar is rejected", step), "code", e);
                    return Err((f.clone(), json!({"property": "C16", "kind": "history", "signature": "route:history", "ops": texts, "failing_step": step,
                        "message": f.msg, "expected": f.expected, "observed": f.observed})));
                }
            }
        }
        let key = format!("{:?}", ops);
        let mut classes = vec!["history"];
        if rejected_before_accept {
            classes.push("accepted_after_rejected");
        }
        if ops.len() >= 4 {
            classes.push("history_len>=4");
        }
        if used_thread {
            classes.push("step_on_new_thread");
        }
        acc.ok(&key, rejected_before_accept, &classes, || json!({"history": ops.iter().map(|(i, b)| format!("g{}{}", i, if b.is_some() { " (rejected variant)" } else { "" })).collect::<Vec<_>>()}));
        Ok(())
    });
    acc.write(out);
}

/// replay of a `history` record: expected code of every accepted text from a fresh process of this binary
pub fn replay_history(rec: &serde_json::Value) -> Option<serde_json::Value> {
    let ops = rec["ops"].as_array()?;
    let exe = std::env::current_exe().ok()?;
    let tmp = std::env::temp_dir().join(format!("c16hist_{}", std::process::id()));
    std::fs::create_dir_all(&tmp).ok()?;
    let mut result = None;
    for (step, op) in ops.iter().enumerate() {
        let text = op["text"].as_str()?;
        let derives: Vec<String> = op["derives"].as_array().map(|a| a.iter().map(|x| x.as_str().unwrap_or("").to_string()).collect()).unwrap_or_default();
        let ds = derives.clone();
        let run = move || {
            let settings = CodegenSettings { derives: ds, ..Default::default() };
            verif_core::util::catch(|| PGrammar::from_str(text).ok().and_then(|g| g.generate_code(&settings).ok()).map(|t| t.to_string())).ok().flatten()
        };
        let got = if op["on_new_thread"].as_bool().unwrap_or(false) { std::thread::scope(|sc| sc.spawn(run).join().ok().flatten()) } else { run() };
        if op["broken_variant"].as_bool().unwrap_or(false) {
            continue;
        }
        let f = tmp.join("g.ebnf");
        std::fs::write(&f, text).ok()?;
        let ds = if derives.is_empty() { "-".to_string() } else { derives.join(",") };
        let p = std::process::Command::new(&exe).arg("codegen").arg(&f).arg("--derives").arg(ds).output().ok()?;
        let fresh = if p.status.success() { Some(String::from_utf8_lossy(&p.stdout).to_string()) } else { None };
        if got != fresh {
            result = Some(json!({"property": "C16", "kind": "history", "signature": "route:history", "failing_step": step,
                "message": format!("step {} of the compile history: result differs from a fresh process", step)}));
            break;
        }
    }
    let _ = std::fs::remove_dir_all(&tmp);
    result
}

/// corpus of grammar texts of all C12/C15 classes (for the C17 differential and as fuzz seeds)
pub fn texts(seed: u64, count: u32, dir: &str) {
    std::fs::create_dir_all(dir).unwrap();
    let mut list = vec![];
    for k in 0..count as u64 {
        let bytes = verif_core::plans::rng_bytes(seed, "texts", k, 700);
        let c = verif_core::texts::case(&bytes);
        list.push(json!({"class": format!("{:?}", c.class), "text": c.text}));
    }
    std::fs::write(format!("{dir}/texts.json"), serde_json::to_string(&list).unwrap()).unwrap();
}
