//! C11: PrettyParseError points at the line and column of the error position.
use crate::common::{Acc, Failure};
use peginator::{ParseError, ParseErrorSpecifics, PrettyParseError};
use proptest::prelude::*;
use serde_json::json;
use verif_core::util::Src;

#[derive(Debug, Clone)]
pub struct Case {
    pub text: String,
    pub pos: usize,
    pub file: Option<String>,
    pub color: bool,
}

fn strip_ansi(s: &str) -> String {
    let mut out = String::new();
    let mut it = s.chars().peekable();
    while let Some(c) = it.next() {
        if c == '\x1b' && it.peek() == Some(&'[') {
            it.next();
            for d in it.by_ref() {
                if d.is_ascii_alphabetic() {
                    break;
                }
            }
        } else {
            out.push(c);
        }
    }
    out
}

/// independent arithmetic: (line number, column, line text)
pub fn expected(text: &str, pos: usize) -> (usize, usize, &str) {
    let before = &text[..pos];
    let line = 1 + before.matches('\n').count();
    let ls = before.rfind('\n').map_or(0, |i| i + 1);
    let le = text[pos..].find('\n').map_or(text.len(), |i| pos + i);
    let col = 1 + text[ls..pos].chars().count();
    (line, col, &text[ls..le])
}

pub fn check(c: &Case) -> Result<Vec<&'static str>, Failure> {
    let err = ParseError { position: c.pos, specifics: ParseErrorSpecifics::ExpectedEoi };
    // with colours on the output is compared after stripping ANSI sequences; a text that itself contains ESC
    // cannot be told apart from colour codes, so such texts are checked with colours off
    let use_color = c.color && !c.text.contains('\x1b') && !c.file.as_deref().unwrap_or("").contains('\x1b');
    // (the same file is compiled into `frontnc` against the runtime crate without its `colored` feature)
    #[cfg(feature = "nocolor")]
    let use_color = false && use_color;
    #[cfg(not(feature = "nocolor"))]
    colored::control::set_override(use_color);
    let text = c.text.clone();
    let file = c.file.clone();
    let r = verif_core::util::catch(move || {
        let p = PrettyParseError::from_parse_error(&err, &text, file.as_deref());
        format!("{}", p)
    });
    #[cfg(not(feature = "nocolor"))]
    colored::control::set_override(false);
    let (line, col, line_text) = expected(&c.text, c.pos);
    let want_loc = match &c.file {
        Some(f) => format!("{}:{}:{}", f, line, col),
        None => format!("Line {} character {}", line, col),
    };
    let shown = match r {
        Ok(s) => s,
        Err(p) => {
            let msg = p.downcast_ref::<String>().cloned().or_else(|| p.downcast_ref::<&str>().map(|s| s.to_string())).unwrap_or_default();
            return Err(Failure::new(format!("conversion to the pretty form panicked: {msg}"), want_loc, "panic".to_string()));
        }
    };
    let plain = if use_color { strip_ansi(&shown) } else { shown.clone() };
    // Layout-agnostic reading of the output (only line, column, the printed line and the caret column are specified):
    //  * some line names the location: `file:LINE:COL`, or the numbers LINE and COL in this order;
    //  * a caret line (one '^', otherwise only gutter characters) directly follows the line that shows the source line;
    //  * with p = (index of '^') - (COL - 1): the shown line from p on is the source line (modulo trailing white space,
    //    which the code trims), i.e. the caret stands under character COL of the printed line.
    let lines: Vec<&str> = plain.split('\n').collect();
    let is_gutter_char = |ch: char| ch == ' ' || ch == '\t' || ch == '|' || ch == ':' || ch == '-' || ch == '=' || ch == '>' || ch == '.' || ch.is_ascii_digit();
    // (the last such line: the printed source line itself may look like a caret line)
    let caret_idx = (1..lines.len()).rev().find(|i| lines[*i].matches('^').count() == 1 && lines[*i].chars().all(|ch| ch == '^' || is_gutter_char(ch)));
    let ci = match caret_idx {
        Some(i) => i,
        None => return Err(Failure::new("pretty error has no caret line", want_loc, plain)),
    };
    let located = lines[..ci].iter().any(|l| match &c.file {
        Some(f) => l.contains(&format!("{}:{}:{}", f, line, col)),
        None => {
            // LINE ... COL as separate integers, in this order
            let nums: Vec<(usize, String)> = {
                let mut v = vec![];
                let mut cur = String::new();
                let mut at = 0;
                for (k, ch) in l.char_indices() {
                    if ch.is_ascii_digit() {
                        if cur.is_empty() {
                            at = k;
                        }
                        cur.push(ch);
                    } else if !cur.is_empty() {
                        v.push((at, std::mem::take(&mut cur)));
                    }
                }
                if !cur.is_empty() {
                    v.push((at, cur));
                }
                v
            };
            nums.windows(2).any(|w| w[0].1 == line.to_string() && w[1].1 == col.to_string())
        }
    });
    if !located {
        return Err(Failure::new(format!("wrong location for position {} in {:?}", c.pos, c.text), want_loc, lines[..ci].join(" / ")));
    }
    let caret_line: Vec<char> = lines[ci].chars().collect();
    let caret_at = caret_line.iter().position(|ch| *ch == '^').unwrap();
    if caret_at < col - 1 {
        return Err(Failure::new(format!("caret not under column {} for position {} in {:?}", col, c.pos, c.text), format!("caret at index >= {}", col - 1), lines[ci].to_string()));
    }
    let p = caret_at - (col - 1);
    let shown_line: Vec<char> = lines[ci - 1].chars().collect();
    let shown_text: String = if shown_line.len() >= p { shown_line[p..].iter().collect() } else { String::new() };
    if shown_text.trim_end() != line_text.trim_end() || (shown_line.len() >= p && !shown_line[..p].iter().all(|ch| is_gutter_char(*ch))) {
        // either the wrong line is printed or the caret is not under column `col` of it
        let want_line = line_text.trim_end();
        let printed_somewhere = shown_line.len() >= want_line.chars().count() && lines[ci - 1].trim_end().ends_with(want_line);
        return Err(if printed_somewhere {
            Failure::new(format!("caret not under column {} for position {} in {:?}", col, c.pos, c.text), format!("caret under character {} of the printed line", col), format!("{} / {}", lines[ci - 1], lines[ci]))
        } else {
            Failure::new(format!("wrong line printed for position {} in {:?}", c.pos, c.text), line_text.to_string(), lines[ci - 1].to_string())
        });
    }
    if line_text.trim_end().is_empty() {
        // nothing printed to align with: the gutter width must be the one the same layout uses for a one-character line
        // with the same line number
        let w = gutter_width(line, &c.file);
        if let Some(w) = w {
            if p != w {
                return Err(Failure::new(format!("caret not under column {} for position {} in {:?}", col, c.pos, c.text), format!("caret at index {}", w + col - 1), lines[ci].to_string()));
            }
        }
    }
    let mut classes = vec![];
    if c.text.is_empty() {
        classes.push("empty_text");
    }
    if c.pos == c.text.len() {
        classes.push("pos_at_len");
    }
    let ls = c.text[..c.pos].rfind('\n').map_or(0, |i| i + 1);
    if c.pos == ls && c.pos != 0 {
        classes.push("line_start_not_0");
    }
    if c.text[c.pos..].starts_with('\n') || (c.pos == c.text.len() && !c.text.is_empty()) {
        classes.push("line_end");
    }
    if c.text[ls..c.pos].chars().any(|ch| ch.len_utf8() > 1) {
        classes.push("after_multibyte");
    }
    if line_text.chars().count() > 120 {
        classes.push("long_line");
    }
    if c.text[ls..c.pos].chars().count() > 65_535 {
        classes.push("column>65535");
    }
    if c.text.starts_with(verif_core::inputs::LEADING_ODDITIES) {
        classes.push("odd_first_character");
    }
    Ok(classes)
}

thread_local! {
    static GUTTER: std::cell::RefCell<std::collections::HashMap<(usize, bool), Option<usize>>> = std::cell::RefCell::new(Default::default());
}
/// index at which the layout starts the source text for line number `line` (calibrated with the text "\n"*(line-1) + "x")
fn gutter_width(line: usize, file: &Option<String>) -> Option<usize> {
    let key = (line, file.is_some());
    if let Some(v) = GUTTER.with(|g| g.borrow().get(&key).cloned()) {
        return v;
    }
    let text = format!("{}x", "\n".repeat(line - 1));
    let err = ParseError { position: text.len() - 1, specifics: ParseErrorSpecifics::ExpectedEoi };
    let f = file.clone();
    let r = std::panic::catch_unwind(move || format!("{}", PrettyParseError::from_parse_error(&err, &text, f.as_deref()))).ok();
    let v = r.and_then(|out| {
        let out = strip_ansi(&out);
        let ls: Vec<&str> = out.split('\n').collect();
        let ci = (1..ls.len()).rev().find(|i| ls[*i].matches('^').count() == 1)?;
        ls[ci].chars().position(|ch| ch == '^')
    });
    GUTTER.with(|g| g.borrow_mut().insert(key, v));
    v
}

const FRAGS: &[&str] = &["a", "ab", "é", "🙂x", " ", "\t", "", "foo bar", "x = 'y';", "ж→☃", "   ", "0123456789", "@export A = b:B;", "\r", "\u{2028}"];

pub fn build(bytes: &[u8]) -> Case {
    let mut src = Src::new(bytes);
    let mut nlines = src.weighted(&[2, 6, 6, 5, 4, 3, 2, 2, 1, 1]);
    if src.chance(6) {
        // occasionally a long file: line numbers with 2-3 digits
        nlines = src.range(90, 400);
    }
    let mut text = String::new();
    for i in 0..nlines {
        let nfr = src.weighted(&[3, 6, 5, 3, 2, 1]);
        for _ in 0..nfr {
            text.push_str(*src.choose(FRAGS));
        }
        if src.chance(12) {
            let n = src.range(50, 300);
            for _ in 0..n {
                text.push(*src.choose(&['a', 'é', ' ', '🙂']));
            }
        }
        let last = i + 1 == nlines;
        if !last || src.chance(128) {
            if src.chance(40) {
                text.push_str("\r\n")
            } else {
                text.push('\n')
            }
        }
    }
    if src.chance(3) {
        // a single enormous line: columns beyond 65 535 (16-bit widths, counters, buffers)
        let n = src.range(65_500, 66_200);
        let mut line = String::with_capacity(n + 8);
        for i in 0..n {
            line.push(if i % 997 == 0 { 'é' } else { 'a' });
        }
        text.push_str(&line);
        if src.chance(128) {
            text.push('\n');
        }
    }
    if src.chance(24) {
        // an unusual very first character (byte order mark, zero width space, NUL ...)
        text.insert(0, *src.choose(verif_core::inputs::LEADING_ODDITIES));
    }
    // boundary positions, biased to interesting ones
    let bounds: Vec<usize> = (0..=text.len()).filter(|i| text.is_char_boundary(*i)).collect();
    let mut special: Vec<usize> = vec![0, text.len()];
    for (i, b) in text.bytes().enumerate() {
        if b == b'\n' {
            special.push(i);
            special.push(i + 1);
        }
    }
    let pos = if src.chance(140) { special[src.pick(special.len())] } else { bounds[src.pick(bounds.len())] };
    let file = match src.pick(3) {
        0 => None,
        1 => Some("grammar.ebnf".to_string()),
        _ => Some("dir with space/ünï.ebnf".to_string()),
    };
    Case { text, pos, file, color: src.chance(64) }
}

pub fn run(seed: u64, cases: u32, out: &str) {
    let mut acc = Acc::new("C11");
    // exhaustive small scope: all texts over {a, é, ' ', \n} up to length 6 x all boundary positions
    let alphabet = ['a', 'é', ' ', '\n'];
    let mut exhaustive = 0u64;
    'outer: for len in 0..=6usize {
        let total = 4usize.pow(len as u32);
        for code in 0..total {
            let mut t = String::new();
            let mut c = code;
            for _ in 0..len {
                t.push(alphabet[c % 4]);
                c /= 4;
            }
            for pos in (0..=t.len()).filter(|i| t.is_char_boundary(*i)) {
                let case = Case { text: t.clone(), pos, file: None, color: false };
                exhaustive += 1;
                match check(&case) {
                    Ok(classes) => acc.ok(&format!("{:?}@{}", case.text, pos), !classes.is_empty(), &classes, || json!({"text": case.text, "pos": pos})),
                    Err(f) => {
                        acc.violation(json!({"property": "C11", "kind": "case", "text": case.text, "pos": pos, "file": case.file, "color": false,
                            "message": f.msg, "expected": f.expected, "observed": f.observed, "signature": signature(&case)}));
                        if acc.violations.len() >= 40 {
                            break 'outer;
                        }
                    }
                }
            }
        }
    }
    acc.extra.insert("exhaustive_small_scope_cases".into(), json!(exhaustive));
    acc.extra.insert("exhaustive_small_scope".into(), json!("all texts over {a, é, ' ', \\n} of length <= 6 x all boundary positions"));
    // random part
    crate::common::run_bytes(seed, "C11", cases, 400, &mut acc, |bytes, acc| {
        let case = build(bytes);
        match check(&case) {
            Ok(classes) => {
                acc.ok(&format!("{:?}@{}@{:?}", case.text, case.pos, case.file), !classes.is_empty(), &classes, || json!({"text": case.text, "pos": case.pos, "file": case.file}));
                Ok(())
            }
            Err(f) => Err((f.clone(), json!({"property": "C11", "kind": "case", "text": case.text, "pos": case.pos, "file": case.file, "color": case.color,
                "message": f.msg, "expected": f.expected, "observed": f.observed, "signature": signature(&case)}))),
        }
    });
    acc.write(out);
}

/// structural signature of a failing case (used for known-finding matching)
pub fn signature(c: &Case) -> String {
    if c.text.is_empty() {
        return "empty_text".into();
    }
    let ls = c.text[..c.pos].rfind('\n').map_or(0, |i| i + 1);
    if c.pos == c.text.len() && c.text.ends_with('\n') {
        return "pos_after_final_newline".into();
    }
    if c.pos == ls && c.pos != 0 {
        return "pos_at_line_start".into();
    }
    if c.text[c.pos..].starts_with('\n') || c.pos == c.text.len() {
        return "pos_at_line_end".into();
    }
    "other".into()
}

pub fn replay(rec: &serde_json::Value) -> Option<serde_json::Value> {
    let case = Case {
        text: rec["text"].as_str()?.to_string(),
        pos: rec["pos"].as_u64()? as usize,
        file: rec["file"].as_str().map(|s| s.to_string()),
        color: rec["color"].as_bool().unwrap_or(false),
    };
    match check(&case) {
        Ok(_) => None,
        Err(f) => Some(json!({"property": "C11", "kind": "case", "text": case.text, "pos": case.pos, "message": f.msg, "expected": f.expected, "observed": f.observed, "signature": signature(&case)})),
    }
}
