use proptest::prelude::*;
use proptest::test_runner::{Config, RngAlgorithm, TestCaseError, TestError, TestRng, TestRunner};
use serde_json::json;
use std::cell::RefCell;
use std::collections::{BTreeMap, BTreeSet};
use verif_core::util::{fnv64, seed_bytes};

#[derive(Debug, Clone)]
pub struct Failure {
    pub msg: String,
    pub expected: String,
    pub observed: String,
}
impl Failure {
    pub fn new(msg: impl Into<String>, expected: impl Into<String>, observed: impl Into<String>) -> Self {
        Failure { msg: msg.into(), expected: expected.into(), observed: observed.into() }
    }
}

pub struct Acc {
    pub prop: String,
    pub evaluations: u64,
    pub nontrivial: BTreeSet<u64>,
    pub classes: BTreeMap<String, u64>,
    pub samples: Vec<serde_json::Value>,
    pub violations: Vec<serde_json::Value>,
    pub extra: BTreeMap<String, serde_json::Value>,
    pub frozen: bool,
}

impl Acc {
    pub fn new(prop: &str) -> Self {
        Acc { prop: prop.into(), evaluations: 0, nontrivial: BTreeSet::new(), classes: BTreeMap::new(), samples: vec![], violations: vec![], extra: BTreeMap::new(), frozen: false }
    }
    pub fn ok(&mut self, key: &str, nontrivial: bool, classes: &[&str], sample: impl FnOnce() -> serde_json::Value) {
        if self.frozen {
            return;
        }
        self.evaluations += 1;
        for c in classes {
            *self.classes.entry(c.to_string()).or_insert(0) += 1;
        }
        if nontrivial {
            let new = self.nontrivial.insert(fnv64(key.as_bytes()));
            if new && self.samples.len() < 10 && (self.nontrivial.len() % 97 == 1 || self.samples.len() < 3) {
                let mut s = sample();
                if let Some(o) = s.as_object_mut() {
                    o.insert("classes".into(), json!(classes));
                }
                self.samples.push(s);
            }
        }
    }
    pub fn class(&mut self, c: &str) {
        if !self.frozen {
            *self.classes.entry(c.to_string()).or_insert(0) += 1;
        }
    }
    pub fn violation(&mut self, v: serde_json::Value) {
        self.violations.push(v);
    }
    pub fn write(&self, out: &str) {
        let j = json!({
            "evaluations": self.evaluations,
            "distinct_nontrivial": self.nontrivial.len(),
            "classes": self.classes,
            "samples": self.samples,
            "violations": self.violations,
            "extra": self.extra,
        });
        std::fs::write(out, serde_json::to_string(&j).unwrap()).unwrap();
    }
}

/// proptest loop over choice bytes; `f` decides a case. On failure the shrunk case's violation record is stored.
pub fn run_bytes(
    seed: u64,
    stream: &str,
    cases: u32,
    max_bytes: usize,
    acc: &mut Acc,
    mut f: impl FnMut(&[u8], &mut Acc) -> Result<(), (Failure, serde_json::Value)>,
) {
    let s = seed_bytes(seed, fnv64(stream.as_bytes()), 0);
    let mut runner = TestRunner::new_with_rng(
        Config { cases, failure_persistence: None, max_shrink_iters: 3000, ..Config::default() },
        TestRng::from_seed(RngAlgorithm::ChaCha, &s),
    );
    let strat = proptest::collection::vec(any::<u8>(), 0..max_bytes);
    let acc_cell = RefCell::new(acc);
    let last: RefCell<Option<serde_json::Value>> = RefCell::new(None);
    let fcell = RefCell::new(&mut f);
    let r = runner.run(&strat, |bytes| {
        let mut a = acc_cell.borrow_mut();
        match (fcell.borrow_mut())(&bytes, &mut **a) {
            Ok(()) => Ok(()),
            Err((fl, v)) => {
                a.frozen = true;
                *last.borrow_mut() = Some(v);
                Err(TestCaseError::fail(fl.msg))
            }
        }
    });
    let acc = acc_cell.into_inner();
    acc.frozen = false;
    if let Err(TestError::Fail(_, bytes)) = r {
        // evaluate the minimal case once more to obtain its record
        acc.frozen = true;
        let v = match f(&bytes, acc) {
            Err((_, v)) => v,
            Ok(()) => last.into_inner().unwrap_or(json!({"message": "failure did not reproduce"})),
        };
        acc.frozen = false;
        acc.violations.push(v);
    }
}
