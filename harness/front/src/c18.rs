//! C18: build-script compilation leaves the destination matching the current grammar (stateful PBT).
use crate::common::{Acc, Failure};
use peginator_codegen::{generate_source_header, CodegenGrammar, CodegenSettings, Compile, Grammar as PGrammar};
use serde::{Deserialize, Serialize};
use serde_json::json;
use std::path::{Path, PathBuf};
use std::str::FromStr;
use verif_core::util::Src;

const VALID: &[&str] = &[
    "@export A = 'a';\n",
    "@export A = 'a' b:B;\nB = 'b';\n",
    "@export A = {x:X ','};\n@string @no_skip_ws X = 'x'..'z';\n",
    "# comment\n@export A = 'a' | 'b';\n",
    "@export A = 'a';\n\n",
    "@export @position A = [f:char] $;\n",
    // the next three differ only in whitespace inside a literal (different languages, nearly equal texts)
    "@export A = 'a b';\n",
    "@export A = 'a  b';\n",
    "@export A = 'a\tb';\n",
    // and these two only in layout outside literals (same code, different text)
    "@export   A='a b'  ;",
    // pairs that differ only in the line-end convention - inside a literal (different languages) and outside
    "@export A = 'a\r\nb';\r\n",
    "@export A = 'a\nb';\n",
    "@export A = 'a';\r\n# c\r\n",
    "@export A = 'a';\n# c\n",
];
/// grammar files that are not valid UTF-8 (reading them must fail): bad bytes in a comment, in a literal, UTF-16
const INVALID_BYTES: &[&[u8]] = &[b"# caf\xe9 rule\n@export\nB = 'b';\n", b"@export A = 'a\xff';\n", b"\xff\xfe@\x00e\x00x\x00"];
const NOT_UTF8_MARK: &str = "\u{1}<not valid UTF-8>";
const INVALID: &[&str] = &["@export A = 'a'", "@export A = ;;", "@export A = @:B;\nB = 'b';\n", "@export A = !(x:B);\nB = 'b';\n", "Whitespace = ' ';\n", ""];
/// prefixes: several are prefixes of each other; the last one is rewritten by rustfmt
const PREFIXES: &[&str] = &[
    "",
    "use std::fmt;",
    "use std::fmt; // first",
    "// note",
    "// note\nuse std::fmt;",
    "\n// after empty line",
    "use   std::fmt ;",
    // strings that look like template placeholders / format directives / escapes must be copied verbatim
    "// {code} {header} {prefix} {} {0} %s $1 \\n",
    "use std::collections::{BTreeMap as code, BTreeSet as header};",
];

#[derive(Debug, Clone, Serialize, Deserialize, PartialEq)]
pub enum Op {
    /// like EditValid, but the file keeps an OLD modification time (cp -p, rsync -t, unpacking an archive, git checkout
    /// of an older commit with restored times): older than any destination written so far
    EditValidOldMtime(usize, usize),
    EditValid(usize, usize),
    EditInvalid(usize, usize),
    EditSame(usize),
    SetPrefix(usize),
    DeleteDestination(usize),
    /// the destination is replaced by an empty file (0) or cut after its first line (1): a placeholder, an interrupted
    /// earlier write
    TruncateDestination(usize, usize),
    RemoveGrammar(usize),
    Run,
}

#[derive(Debug, Clone, Serialize, Deserialize)]
pub struct History {
    /// directory mode with `src/sub` being a symbolic link to a directory outside `src`
    #[serde(default)]
    pub symlinked_subdir: bool,
    /// the build script is run with the crate root as working directory and hands relative paths to `Compile`
    #[serde(default)]
    pub relative_paths: bool,
    pub directory: bool,
    pub explicit_dest: bool,
    pub format: bool,
    pub nfiles: usize,
    pub ops: Vec<Op>,
}

pub fn build(bytes: &[u8]) -> History {
    let mut src = Src::new(bytes);
    let directory = src.chance(90);
    let nfiles = if directory { src.range(1, 3) } else { 1 };
    let explicit_dest = !directory && src.chance(128);
    let format = src.chance(50);
    let symlinked_subdir = directory && nfiles >= 2 && src.chance(64);
    let relative_paths = src.chance(100);
    let n = src.range(2, 24);
    let mut ops = vec![Op::EditValid(0, src.pick(VALID.len()))];
    for i in 1..nfiles {
        ops.push(Op::EditValid(i, src.pick(VALID.len())));
    }
    let mut last_valid = vec![0usize; nfiles];
    for (i, op) in ops.iter().enumerate() {
        if let Op::EditValid(_, k) = op {
            last_valid[i.min(nfiles - 1)] = *k;
        }
    }
    for _ in 0..n {
        let f = src.pick(nfiles);
        ops.push(match src.weighted(&[10, 4, 3, 2, 5, 2, 1, 2, 2]) {
            8 => Op::TruncateDestination(f, src.pick(2)),
            7 => {
                let k = src.pick(VALID.len());
                last_valid[f] = k;
                Op::EditValidOldMtime(f, k)
            }
            0 => Op::Run,
            1 => {
                // often a neighbouring text: neighbours in the pool differ minimally (whitespace only)
                let k = if src.chance(110) { (last_valid[f] + 1 + src.pick(2) * (VALID.len() - 2)) % VALID.len() } else { src.pick(VALID.len()) };
                last_valid[f] = k;
                Op::EditValid(f, k)
            }
            2 => Op::EditInvalid(f, src.pick(INVALID.len() + INVALID_BYTES.len())),
            3 => Op::EditSame(f),
            4 => Op::SetPrefix(src.pick(PREFIXES.len())),
            5 => Op::DeleteDestination(f),
            _ => Op::RemoveGrammar(f),
        });
    }
    ops.push(Op::Run);
    History { symlinked_subdir, relative_paths, directory, explicit_dest, format, nfiles, ops }
}

fn lib_code(text: &str) -> Option<String> {
    let g = PGrammar::from_str(text).ok()?;
    g.generate_code(&CodegenSettings::default()).ok().map(|t| t.to_string())
}

thread_local! {
    static FMT_CACHE: std::cell::RefCell<std::collections::HashMap<String, String>> = std::cell::RefCell::new(Default::default());
}

fn rustfmt_text(dir: &Path, content: &str) -> String {
    if let Some(s) = FMT_CACHE.with(|c| c.borrow().get(content).cloned()) {
        return s;
    }
    let p = dir.join("__expected.rs");
    std::fs::write(&p, content).unwrap();
    let _ = std::process::Command::new("rustfmt").arg(&p).status();
    let s = std::fs::read_to_string(&p).unwrap_or_default();
    let _ = std::fs::remove_file(&p);
    FMT_CACHE.with(|c| c.borrow_mut().insert(content.to_string(), s.clone()));
    s
}

/// dest must be: header(text) + (zero or more extra `//` header lines) + "\n" + prefix + "\n" + code
/// (the blank line separates the header block from the prefix, so the extra lines are the comment
/// lines that directly follow the header)
fn matches_expected(dest: &str, text: &str, prefix: &str, code: &str, format: bool, scratch: &Path) -> bool {
    let header = generate_source_header(text);
    if !dest.starts_with(&header) {
        return false;
    }
    let mut rest = &dest[header.len()..];
    let mut extra = String::new();
    while rest.starts_with("//") {
        let nl = match rest.find('\n') {
            Some(i) => i + 1,
            None => return false,
        };
        extra.push_str(&rest[..nl]);
        rest = &rest[nl..];
    }
    let tail = format!("\n{}\n{}", prefix, code);
    if !format {
        return rest == tail;
    }
    let want = rustfmt_text(scratch, &format!("{}{}{}", header, extra, tail));
    want == dest
}

struct FileState {
    grammar: PathBuf,
    dest: PathBuf,
    text: Option<String>,
    /// (text, prefix) of the last successful run that produced the current destination, if still in place
    produced_from: Option<(String, String)>,
}

fn mtime(p: &Path) -> Option<std::time::SystemTime> {
    std::fs::metadata(p).ok().and_then(|m| m.modified().ok())
}

pub fn execute(h: &History, root: &Path) -> Result<(bool, u64), Failure> {
    let home = std::env::current_dir().ok();
    let r = execute_inner(h, root);
    if let Some(home) = home {
        let _ = std::env::set_current_dir(home);
    }
    r
}

fn execute_inner(h: &History, root: &Path) -> Result<(bool, u64), Failure> {
    let _ = std::fs::remove_dir_all(root);
    if h.symlinked_subdir {
        std::fs::create_dir_all(root.join("src")).unwrap();
        std::fs::create_dir_all(root.join("linked_sub/deep")).unwrap();
        std::os::unix::fs::symlink(root.join("linked_sub"), root.join("src/sub")).unwrap();
    }
    std::fs::create_dir_all(root.join("src/sub/deep")).unwrap();
    let scratch = root.join("scratch");
    std::fs::create_dir_all(&scratch).unwrap();
    std::fs::write(root.join("src/readme.txt"), "not a grammar").unwrap();
    // names with several dots, a space and a non-ASCII letter
    let rel = ["src/g0.ebnf", "src/sub/g1.v2.ebnf", "src/sub/deep/g 2 ü.ebnf"];
    let mut files: Vec<FileState> = (0..h.nfiles)
        .map(|i| {
            let g = root.join(rel[i]);
            let d = if h.explicit_dest { root.join("out_g0.rs") } else { g.with_extension("rs") };
            FileState { grammar: g, dest: d, text: None, produced_from: None }
        })
        .collect();
    let mut prefix = String::new();
    let mut runs = 0u64;
    let mut shortcut_exercised = false;
    let mut had_success = false;
    let mut edited_after_success = false;
    for (step, op) in h.ops.iter().enumerate() {
        match op {
            Op::EditValid(f, k) | Op::EditValidOldMtime(f, k) => {
                let f = &mut files[*f % h.nfiles];
                std::fs::write(&f.grammar, VALID[*k]).unwrap();
                if matches!(op, Op::EditValidOldMtime(..)) {
                    // 2001-09-09: older than everything this history has written
                    let old = std::time::UNIX_EPOCH + std::time::Duration::from_secs(1_000_000_000 + step as u64);
                    if let Ok(fh) = std::fs::OpenOptions::new().write(true).open(&f.grammar) {
                        let _ = fh.set_modified(old);
                    }
                }
                f.text = Some(VALID[*k].to_string());
                if had_success {
                    edited_after_success = true;
                }
            }
            Op::EditInvalid(f, k) => {
                let f = &mut files[*f % h.nfiles];
                if *k < INVALID.len() {
                    std::fs::write(&f.grammar, INVALID[*k]).unwrap();
                    f.text = Some(INVALID[*k].to_string());
                } else {
                    std::fs::write(&f.grammar, INVALID_BYTES[(*k - INVALID.len()) % INVALID_BYTES.len()]).unwrap();
                    f.text = Some(NOT_UTF8_MARK.to_string());
                }
                if had_success {
                    edited_after_success = true;
                }
            }
            Op::EditSame(f) => {
                let f = &mut files[*f % h.nfiles];
                if let Some(t) = &f.text {
                    if t != NOT_UTF8_MARK {
                        std::fs::write(&f.grammar, t).unwrap();
                    }
                }
            }
            Op::SetPrefix(k) => {
                prefix = PREFIXES[*k].to_string();
                if had_success {
                    edited_after_success = true;
                }
            }
            Op::DeleteDestination(f) => {
                let f = &mut files[*f % h.nfiles];
                let _ = std::fs::remove_file(&f.dest);
                f.produced_from = None;
            }
            Op::TruncateDestination(f, how) => {
                let f = &mut files[*f % h.nfiles];
                if let Ok(old) = std::fs::read_to_string(&f.dest) {
                    let keep = if *how == 0 { String::new() } else { old.lines().next().map(|l| format!("{l}\n")).unwrap_or_default() };
                    std::fs::write(&f.dest, keep).unwrap();
                    f.produced_from = None;
                }
            }
            Op::RemoveGrammar(f) => {
                let f = &mut files[*f % h.nfiles];
                let _ = std::fs::remove_file(&f.grammar);
                f.text = None;
            }
            Op::Run => {
                runs += 1;
                let before: Vec<(Option<Vec<u8>>, Option<std::time::SystemTime>)> = files.iter().map(|f| (std::fs::read(&f.dest).ok(), mtime(&f.dest))).collect();
                // what the build script passes: absolute paths, or paths relative to its working directory (the crate root)
                let arg = |p: &Path| -> PathBuf {
                    if h.relative_paths {
                        p.strip_prefix(root).map(|x| x.to_path_buf()).unwrap_or_else(|_| p.to_path_buf())
                    } else {
                        p.to_path_buf()
                    }
                };
                if h.relative_paths {
                    std::env::set_current_dir(root).unwrap();
                }
                let mut c = if h.directory { Compile::directory(arg(&root.join("src"))) } else { Compile::file(arg(&files[0].grammar)) };
                if h.explicit_dest {
                    c = c.destination(arg(&files[0].dest));
                }
                if h.format {
                    c = c.format();
                }
                c = c.prefix(prefix.clone());
                // make sure a rewrite is visible in the mtime
                std::thread::sleep(std::time::Duration::from_millis(12));
                let result = std::panic::catch_unwind(std::panic::AssertUnwindSafe(|| c.run()));
                let result = match result {
                    Ok(r) => r,
                    Err(_) => return Err(Failure::new(format!("step {step}: Compile::run panicked"), "Ok or Err", "panic")),
                };
                let expect_ok = if h.directory { files.iter().all(|f| f.text.as_ref().map_or(true, |t| lib_code(t).is_some())) } else { files[0].text.as_ref().map_or(false, |t| lib_code(t).is_some()) };
                if result.is_ok() != expect_ok {
                    return Err(Failure::new(
                        format!("step {step}: run returned {} but the grammar is {}", if result.is_ok() { "Ok" } else { "Err" }, if expect_ok { "valid" } else { "invalid or unreadable" }),
                        if expect_ok { "Ok" } else { "Err" },
                        format!("{:?}", result.as_ref().map_err(|e| e.to_string())),
                    ));
                }
                for (i, f) in files.iter_mut().enumerate() {
                    let now = std::fs::read(&f.dest).ok();
                    let now_m = mtime(&f.dest);
                    let untouched = now == before[i].0 && now_m == before[i].1;
                    let valid_code = f.text.as_ref().and_then(|t| lib_code(t));
                    let up_to_date = match (&now, &f.text, &valid_code) {
                        (Some(bytes), Some(t), Some(code)) => matches_expected(&String::from_utf8_lossy(bytes), t, &prefix, code, h.format, &scratch),
                        _ => false,
                    };
                    if f.text.is_none() {
                        // grammar file absent: file mode fails (checked above); directory mode ignores it
                        if !untouched {
                            return Err(Failure::new(format!("step {step}: destination of a removed grammar file was modified"), "untouched", "modified"));
                        }
                        continue;
                    }
                    if result.is_ok() {
                        if !up_to_date {
                            return Err(Failure::new(
                                format!("step {step}: after a successful run the destination is not the compilation of the current grammar and prefix {:?} (file {})", prefix, i),
                                format!("header + prefix {:?} + code of {:?}", prefix, f.text),
                                String::from_utf8_lossy(now.as_deref().unwrap_or(b"<missing>")).chars().take(400).collect::<String>(),
                            ));
                        }
                        let same_inputs = f.produced_from.as_ref().map_or(false, |(t, p)| Some(t) == f.text.as_ref() && *p == prefix);
                        if same_inputs {
                            shortcut_exercised = true;
                            if !untouched {
                                return Err(Failure::new(format!("step {step}: an up-to-date destination was rewritten"), "left untouched", "rewritten"));
                            }
                        }
                        f.produced_from = Some((f.text.clone().unwrap(), prefix.clone()));
                        had_success = true;
                    } else {
                        // failing run: this destination is either untouched or (directory mode, other file) fully up to date
                        let this_is_invalid = valid_code.is_none();
                        if this_is_invalid || !h.directory {
                            if !untouched {
                                return Err(Failure::new(format!("step {step}: a failing run modified the destination of the failing grammar"), "destination left exactly as it was", "modified"));
                            }
                        } else if !untouched && !up_to_date {
                            return Err(Failure::new(format!("step {step}: after a failing directory run a destination is neither untouched nor up to date"), "untouched or complete", "partial"));
                        } else if up_to_date {
                            f.produced_from = Some((f.text.clone().unwrap(), prefix.clone()));
                        }
                    }
                }
            }
        }
    }
    let _ = std::fs::remove_dir_all(root);
    Ok((shortcut_exercised || (had_success && edited_after_success), runs))
}

pub fn signature(h: &History) -> String {
    // structural signature: does the history shrink a prefix to a proper prefix of the previous one between two runs?
    let mut last_run_prefix: Option<usize> = None;
    let mut cur = 0usize;
    let mut shrinks = false;
    for op in &h.ops {
        match op {
            Op::SetPrefix(k) => cur = *k,
            Op::Run => {
                if let Some(p) = last_run_prefix {
                    if PREFIXES[p] != PREFIXES[cur] && PREFIXES[p].starts_with(PREFIXES[cur]) {
                        shrinks = true;
                    }
                }
                last_run_prefix = Some(cur);
            }
            _ => {}
        }
    }
    if shrinks {
        "prefix_becomes_proper_prefix".into()
    } else {
        "other".into()
    }
}

pub fn run(seed: u64, cases: u32, out: &str, workdir: &str) {
    let mut acc = Acc::new("C18");
    let root = PathBuf::from(workdir).join(format!("c18_{}", std::process::id()));
    let mut total_runs = 0u64;
    crate::common::run_bytes(seed, "C18", cases, 120, &mut acc, |bytes, acc| {
        let h = build(bytes);
        match execute(&h, &root) {
            Ok((nt, runs)) => {
                total_runs += runs;
                let mut classes = vec![if h.directory { "directory_mode" } else { "file_mode" }];
                if h.format {
                    classes.push("format");
                }
                if h.explicit_dest {
                    classes.push("explicit_destination");
                }
                if h.symlinked_subdir {
                    classes.push("symlinked_subdirectory");
                }
                if h.relative_paths {
                    classes.push("relative_paths");
                }
                if h.ops.iter().any(|o| matches!(o, Op::TruncateDestination(..))) {
                    classes.push("truncated_destination");
                }
                if h.ops.iter().any(|o| matches!(o, Op::EditValidOldMtime(..))) {
                    classes.push("edit_with_old_mtime");
                }
                if h.ops.iter().any(|o| matches!(o, Op::EditInvalid(_, k) if *k >= INVALID.len())) {
                    classes.push("non_utf8_grammar_file");
                }
                if h.ops.iter().any(|o| matches!(o, Op::EditValid(_, k) if *k >= 10)) {
                    classes.push("line_end_variants");
                }
                if nt {
                    classes.push("run_after_edit_following_success");
                }
                acc.ok(&serde_json::to_string(&h).unwrap(), nt, &classes, || json!({"history": h}));
                Ok(())
            }
            Err(f) => Err((f.clone(), json!({"property": "C18", "kind": "history", "history": h, "signature": signature(&h), "message": f.msg, "expected": f.expected, "observed": f.observed}))),
        }
    });
    let _ = std::fs::remove_dir_all(&root);
    acc.extra.insert("compile_runs".into(), json!(total_runs));
    acc.write(out);
}

pub fn replay(rec: &serde_json::Value, workdir: &str) -> Option<serde_json::Value> {
    let h: History = serde_json::from_value(rec["history"].clone()).ok()?;
    let root = PathBuf::from(workdir).join(format!("c18_replay_{}", std::process::id()));
    let r = execute(&h, &root);
    let _ = std::fs::remove_dir_all(&root);
    match r {
        Ok(_) => None,
        Err(f) => Some(json!({"property": "C18", "kind": "history", "history": h, "signature": signature(&h), "message": f.msg})),
    }
}
