//! C04 (runtime layer): the public terminal matchers against reference matchers written with chars().
use crate::common::{Acc, Failure};
use peginator::*;
use serde_json::json;
use verif_core::util::Src;

const TEXT_FRAGS: &[&str] = &["_", "@", "[", "{", "^", "~", "`", "|", "\\", "]", "}", "?", "\x1f", "\x7f", "a", "b", "Z", "é", "ß", "ж", "→", "☃", "🙂", " ", "\t", "\n", "\x0C", "\r", "\x0B", "\u{A0}", "\u{2003}", "k", "K", "\u{212A}", "ſ", "İ", "ı", "\u{80}", "\u{7ff}", "\u{800}", "\u{ffff}", "\u{10000}", "\u{10ffff}", "ab", "1x", "", "\0"];
const LITS: &[&str] = &["", "a", "ab", "é", "éa", "aé", "🙂", "a🙂b", "→→", "k", "ss", "\u{10ffff}", "b\u{80}", " ", "\n", "Z1", "ж", "☃x"];
const ILITS: &[&str] = &["", "a", "ab", "k", "ss", "i", "z1", "-", "a-b", "kk", "s", "_", "a_b", "[x]", "{", "~~", "@k", "^", "`", "a\\b", "\t"];
const CHARS: &[char] = &['_', '@', '[', '{', '^', '~', '`', '|', '\\', ']', '}', '\t', 'a', 'b', 'Z', 'k', 's', 'i', '0', ' ', '\n', '\x7f', '\u{80}', 'é', 'ß', 'ж', '→', '☃', '🙂', '\u{7ff}', '\u{800}', '\u{ffff}', '\u{10000}', '\u{10ffff}', '\0', '\u{212A}'];

#[derive(Debug, Clone)]
pub struct Case {
    pub text: String,
    pub offset: usize,
    pub matcher: usize,
    pub lit: &'static str,
    pub c1: char,
    pub c2: char,
}

pub fn build(bytes: &[u8]) -> Case {
    let mut src = Src::new(bytes);
    let n = src.range(0, 8);
    let mut text = String::new();
    for _ in 0..n {
        text.push_str(*src.choose(TEXT_FRAGS));
    }
    let matcher = src.pick(8);
    let lit = if matcher == 6 { *src.choose(ILITS) } else { *src.choose(LITS) };
    // make the literal likely to match: sometimes prepend it (in some case variant)
    if src.chance(110) {
        let mut l = lit.to_string();
        if matcher == 6 && src.chance(128) {
            l = l.to_ascii_uppercase();
        }
        text = format!("{l}{text}");
    }
    let bounds: Vec<usize> = (0..=text.len()).filter(|i| text.is_char_boundary(*i)).collect();
    let offset = if src.chance(150) { 0 } else { bounds[src.pick(bounds.len())] };
    let c1 = *src.choose(CHARS);
    let c2 = if src.chance(100) { c1 } else { *src.choose(CHARS) };
    let c1 = if matcher == 7 { c1.to_ascii_lowercase() } else { c1 };
    Case { text, offset, matcher, lit, c1, c2 }
}

/// (consumed bytes) or error spec text
fn reference(c: &Case) -> Result<usize, String> {
    let rest = &c.text[c.offset..];
    let next = rest.chars().next();
    match c.matcher {
        0 => next.map(|ch| ch.len_utf8()).ok_or_else(|| "ExpectedAnyCharacter".to_string()),
        1 => Ok(rest.bytes().take_while(|b| matches!(b, 0x20 | 0x09 | 0x0A | 0x0C | 0x0D)).count()),
        2 => {
            let mut it = rest.chars();
            if c.lit.chars().all(|l| it.next() == Some(l)) {
                Ok(c.lit.len())
            } else {
                Err(format!("ExpectedString {{ s: {:?} }}", c.lit))
            }
        }
        3 => {
            if next == Some(c.c1) {
                Ok(c.c1.len_utf8())
            } else {
                Err(format!("ExpectedCharacter {{ c: {:?} }}", c.c1))
            }
        }
        4 => match next {
            Some(ch) if c.c1 <= ch && ch <= c.c2 => Ok(ch.len_utf8()),
            _ => Err(format!("ExpectedCharacterRange {{ from: {:?}, to: {:?} }}", c.c1, c.c2)),
        },
        5 => {
            if c.offset == c.text.len() {
                Ok(0)
            } else {
                Err("ExpectedEoi".into())
            }
        }
        6 => {
            let mut it = rest.chars();
            let mut ok = true;
            for l in c.lit.chars() {
                match it.next() {
                    Some(ch) if ch.is_ascii() && ch.to_ascii_lowercase() == l => {}
                    _ => {
                        ok = false;
                        break;
                    }
                }
            }
            if ok {
                Ok(c.lit.len())
            } else {
                Err(format!("ExpectedString {{ s: {:?} }}", c.lit))
            }
        }
        _ => {
            if !c.c1.is_ascii() {
                // codegen never emits a non-ASCII insensitive character: outside the domain
                return Err("DOMAIN".into());
            }
            match next {
                Some(ch) if ch.is_ascii() && ch.to_ascii_lowercase() == c.c1 => Ok(1),
                _ => Err(format!("ExpectedCharacter {{ c: {:?} }}", c.c1)),
            }
        }
    }
}

pub fn check(c: &Case) -> Result<Vec<&'static str>, Failure> {
    let want = reference(c);
    if want == Err("DOMAIN".to_string()) {
        return Ok(vec!["out_of_domain"]);
    }
    let text = c.text.clone();
    let case = c.clone();
    let got = verif_core::util::catch(move || {
        let set = ParseSettings::default();
        let st = ParseState::new(&text, &set).advance_safe(case.offset);
        let before = st.s().len();
        let conv = |r: Result<usize, ParseError>| r.map_err(|e| (e.position, format!("{:?}", e.specifics)));
        let r: Result<usize, (usize, String)> = match case.matcher {
            0 => conv(parse_char(st, ()).map(|ok| before - ok.state.s().len())),
            1 => conv(parse_Whitespace(st, ()).map(|ok| before - ok.state.s().len())),
            2 => conv(parse_string_literal(st, case.lit).map(|ok| before - ok.state.s().len())),
            3 => conv(parse_character_literal(st, case.c1).map(|ok| before - ok.state.s().len())),
            4 => conv(parse_character_range(st, case.c1, case.c2).map(|ok| before - ok.state.s().len())),
            5 => conv(parse_end_of_input(st).map(|ok| before - ok.state.s().len())),
            6 => conv(parse_string_literal_insensitive(st, case.lit).map(|ok| before - ok.state.s().len())),
            _ => conv(parse_character_literal_insensitive(st, case.c1).map(|ok| before - ok.state.s().len())),
        };
        // range_until / slice_until consistency
        let a = ParseState::new(&text, &set).advance_safe(case.offset);
        let extra = if let Ok(n) = &r {
            let b = ParseState::new(&text, &set).advance_safe(case.offset + *n);
            Some((a.range_until(&b), a.slice_until(&b).to_string()))
        } else {
            None
        };
        (r, extra)
    });
    let names = ["parse_char", "parse_Whitespace", "parse_string_literal", "parse_character_literal", "parse_character_range", "parse_end_of_input", "parse_string_literal_insensitive", "parse_character_literal_insensitive"];
    let name = names[c.matcher];
    let (got, extra) = match got {
        Ok(x) => x,
        Err(p) => {
            let msg = p.downcast_ref::<String>().cloned().or_else(|| p.downcast_ref::<&str>().map(|s| s.to_string())).unwrap_or_default();
            return Err(Failure::new(format!("{name} panicked: {msg}"), format!("{:?}", want), "panic"));
        }
    };
    match (&want, &got) {
        (Ok(w), Ok(g)) => {
            if w != g {
                return Err(Failure::new(format!("{name} consumed a different number of bytes"), w.to_string(), g.to_string()));
            }
            if !c.text.is_char_boundary(c.offset + g) {
                return Err(Failure::new(format!("{name} left the cursor inside a UTF-8 sequence"), "char boundary", format!("{}", c.offset + g)));
            }
            if let Some((r, s)) = extra {
                if r != (c.offset..c.offset + g) || s != c.text[c.offset..c.offset + g] {
                    return Err(Failure::new("range_until / slice_until disagree with the consumed span", format!("{:?}", c.offset..c.offset + g), format!("{:?} {:?}", r, s)));
                }
            }
        }
        (Err(w), Err((pos, spec))) => {
            if *pos != c.offset || spec != w {
                return Err(Failure::new(format!("{name} reports a different failure"), format!("pos={} {}", c.offset, w), format!("pos={} {}", pos, spec)));
            }
        }
        _ => {
            return Err(Failure::new(format!("{name} accept/reject differs from the reference"), format!("{:?}", want), format!("{:?}", got)));
        }
    }
    let mut classes = vec![];
    if c.text[c.offset..].chars().next().map_or(false, |ch| ch.len_utf8() > 1) {
        classes.push("multibyte_at_cursor");
    }
    if want.is_ok() {
        classes.push("match");
    }
    Ok(classes)
}

pub fn run(seed: u64, cases: u32, out: &str) {
    let mut acc = Acc::new("C04");
    crate::common::run_bytes(seed, "C04rt", cases, 40, &mut acc, |bytes, acc| {
        let case = build(bytes);
        match check(&case) {
            Ok(classes) => {
                let nt = classes.contains(&"multibyte_at_cursor");
                acc.ok(&format!("{:?}", case), nt, &classes, || json!({"text": case.text, "offset": case.offset, "matcher": case.matcher, "lit": case.lit, "c1": case.c1, "c2": case.c2}));
                Ok(())
            }
            Err(f) => Err((f.clone(), json!({"property": "C04", "kind": "runtime", "text": case.text, "offset": case.offset, "matcher": case.matcher, "lit": case.lit,
                "c1": case.c1.to_string(), "c2": case.c2.to_string(), "message": f.msg, "expected": f.expected, "observed": f.observed}))),
        }
    });
    acc.write(out);
}

pub fn replay(rec: &serde_json::Value) -> Option<serde_json::Value> {
    let lit_s = rec["lit"].as_str()?;
    let lit = LITS.iter().chain(ILITS.iter()).find(|l| **l == lit_s).copied()?;
    let case = Case {
        text: rec["text"].as_str()?.to_string(),
        offset: rec["offset"].as_u64()? as usize,
        matcher: rec["matcher"].as_u64()? as usize,
        lit,
        c1: rec["c1"].as_str()?.chars().next()?,
        c2: rec["c2"].as_str()?.chars().next()?,
    };
    match check(&case) {
        Ok(_) => None,
        Err(f) => Some(json!({"property": "C04", "kind": "runtime", "message": f.msg, "expected": f.expected, "observed": f.observed})),
    }
}
