//! C15: the grammar compiler always answers (code or error value), restrictions are enforced.
use crate::common::{Acc, Failure};
use peginator_codegen::{CodegenGrammar, CodegenSettings, Grammar as PGrammar};
use serde_json::json;
use std::io::{BufRead, BufReader, Write};
use std::process::{Child, ChildStdin, Command, Stdio};
use std::str::FromStr;
use std::sync::mpsc::{channel, Receiver};
use std::time::Duration;
use verif_core::texts::{self, Case, Class, Expect};

pub fn compile(text: &str, derives: &[String]) -> (String, String, String) {
    let text = text.to_string();
    let derives = derives.to_vec();
    let r = verif_core::util::catch(move || {
        let g = match PGrammar::from_str(&text) {
            Ok(g) => g,
            Err(e) => return ("parse_err".to_string(), format!("{:?}", e), String::new()),
        };
        let settings = CodegenSettings { derives, ..Default::default() };
        match g.generate_code(&settings) {
            Ok(ts) => ("code".to_string(), String::new(), ts.to_string()),
            Err(e) => ("codegen_err".to_string(), format!("{:#}", e), String::new()),
        }
    });
    match r {
        Ok(x) => x,
        Err(p) => {
            let msg = p.downcast_ref::<String>().cloned().or_else(|| p.downcast_ref::<&str>().map(|s| s.to_string())).unwrap_or_else(|| "panic".into());
            ("panic".to_string(), msg, String::new())
        }
    }
}

/// child process: one JSON case per line on stdin, one JSON answer per line on stdout
pub fn worker() {
    std::panic::set_hook(Box::new(|_| {}));
    let stdin = std::io::stdin();
    let mut out = std::io::stdout();
    for line in stdin.lock().lines() {
        let line = match line {
            Ok(l) => l,
            Err(_) => break,
        };
        let v: serde_json::Value = match serde_json::from_str(&line) {
            Ok(v) => v,
            Err(_) => continue,
        };
        let text = v["text"].as_str().unwrap_or("");
        let derives: Vec<String> = v["derives"].as_array().map(|a| a.iter().map(|x| x.as_str().unwrap_or("").to_string()).collect()).unwrap_or_default();
        let (kind, msg, code) = compile(text, &derives);
        let ans = json!({"kind": kind, "msg": msg, "code_hash": format!("{:016x}", verif_core::util::fnv64(code.as_bytes()))});
        let _ = writeln!(out, "{}", ans);
        let _ = out.flush();
    }
}

struct Worker {
    child: Child,
    stdin: ChildStdin,
    rx: Receiver<String>,
}

impl Worker {
    fn spawn() -> Worker {
        let exe = std::env::current_exe().unwrap();
        let mut child = Command::new(exe).arg("worker").stdin(Stdio::piped()).stdout(Stdio::piped()).stderr(Stdio::null()).spawn().unwrap();
        let stdin = child.stdin.take().unwrap();
        let stdout = child.stdout.take().unwrap();
        let (tx, rx) = channel();
        std::thread::spawn(move || {
            for l in BufReader::new(stdout).lines().flatten() {
                if tx.send(l).is_err() {
                    break;
                }
            }
        });
        Worker { child, stdin, rx }
    }
    /// Ok(answer) | Err("died") | Err("timeout")
    fn ask(&mut self, case: &Case, timeout: Duration) -> Result<serde_json::Value, &'static str> {
        let line = json!({"text": case.text, "derives": case.derives}).to_string();
        if let Ok(p) = std::env::var("VERIF_C15_LOG") {
            let _ = std::fs::write(p, &line);
        }
        if writeln!(self.stdin, "{}", line).is_err() || self.stdin.flush().is_err() {
            return Err("died");
        }
        match self.rx.recv_timeout(timeout) {
            Ok(l) => serde_json::from_str(&l).map_err(|_| "died"),
            Err(std::sync::mpsc::RecvTimeoutError::Timeout) => Err("timeout"),
            Err(_) => Err("died"),
        }
    }
    fn kill(mut self) -> Option<i32> {
        let _ = self.child.kill();
        let st = self.child.wait().ok();
        st.and_then(|s| {
            use std::os::unix::process::ExitStatusExt;
            s.signal()
        })
    }
}

pub fn signature(case: &Case, outcome: &str) -> String {
    format!("{:?}:{}:{}", case.class, case.sub.split(' ').next().unwrap_or(""), outcome)
}

pub struct Runner {
    w: Option<Worker>,
    pub tolerate: Vec<String>,
    pub excluded_known: std::collections::BTreeMap<String, u64>,
    pub hang_budget: Duration,
}

impl Runner {
    pub fn new(tolerate: Vec<String>, hang_secs: u64) -> Runner {
        Runner { w: None, tolerate, excluded_known: Default::default(), hang_budget: Duration::from_secs(hang_secs) }
    }

    /// decide one case: Ok(classes, nontrivial) or Err(failure, signature)
    pub fn decide(&mut self, case: &Case) -> Result<(Vec<&'static str>, bool), (Failure, String)> {
        if self.w.is_none() {
            self.w = Some(Worker::spawn());
        }
        let r = self.w.as_mut().unwrap().ask(case, Duration::from_secs(20));
        let ans = match r {
            Ok(a) => a,
            Err("timeout") => {
                // re-run alone with a large budget before calling it a hang
                if let Some(w) = self.w.take() {
                    w.kill();
                }
                let mut solo = Worker::spawn();
                let r2 = solo.ask(case, self.hang_budget);
                solo.kill();
                match r2 {
                    Ok(a) => a,
                    Err("timeout") => {
                        return Err((Failure::new(format!("the compiler does not answer within {:?} (peers take milliseconds)", self.hang_budget), "code or error", "hang"), signature(case, "hang")));
                    }
                    Err(_) => json!({"kind": "died"}),
                }
            }
            Err(_) => {
                if let Some(w) = self.w.take() {
                    let sig = w.kill();
                    json!({"kind": "died", "signal": sig})
                } else {
                    json!({"kind": "died"})
                }
            }
        };
        let kind = ans["kind"].as_str().unwrap_or("died");
        let mut classes: Vec<&'static str> = vec![match case.class {
            Class::Valid => "class_valid",
            Class::ValidLayout => "class_valid_layout",
            Class::Violator => "class_violator",
            Class::Mutated => "class_mutated",
            Class::Identifier => "class_identifier",
            Class::IncludeCycle => "class_include_cycle",
            Class::Nesting => "class_nesting",
            Class::Arbitrary => "class_arbitrary",
        }];
        match kind {
            "died" => {
                return Err((
                    Failure::new("the compiler process died (stack overflow / abort) instead of answering", "code or error value", format!("process died, signal {:?}", ans["signal"])),
                    signature(case, "died"),
                ))
            }
            "panic" => {
                return Err((
                    Failure::new(format!("the compiler panicked: {}", ans["msg"].as_str().unwrap_or("")), "code or error value", "panic"),
                    signature(case, "panic"),
                ))
            }
            "code" => {
                classes.push("outcome_code");
                if case.expect == Expect::Err {
                    return Err((
                        Failure::new(format!("a grammar violating a documented restriction ({}) is accepted", case.sub), "Err", "generated code"),
                        signature(case, "accepted"),
                    ));
                }
            }
            "codegen_err" => classes.push("outcome_codegen_err"),
            _ => classes.push("outcome_parse_err"),
        }
        if case.expect == Expect::Code && kind != "code" {
            classes.push("valid_but_rejected");
        }
        let nontrivial = kind == "code" || kind == "codegen_err" || case.class == Class::Violator;
        Ok((classes, nontrivial))
    }
}

pub fn run(seed: u64, cases: u32, out: &str, tolerate: Vec<String>, hang_secs: u64) {
    let mut acc = Acc::new("C15");
    let mut runner = Runner::new(tolerate, hang_secs);
    // every documented restriction at least a few times, deterministically
    for (i, which) in texts::VIOLATIONS.iter().enumerate() {
        for k in 0..3u64 {
            let bytes = verif_core::plans::rng_bytes(seed, "C15-violators", (i as u64) * 10 + k, 400);
            let mut src = verif_core::util::Src::new(&bytes);
            let case = texts::violator(&mut src, which);
            one(&mut runner, &case, &mut acc);
        }
    }
    let mut pending: Vec<serde_json::Value> = vec![];
    crate::common::run_bytes(seed, "C15", cases, 700, &mut acc, |bytes, acc| {
        if pending.len() >= 3 {
            // three hangs recorded: the tree hangs systematically; every further one would cost the full budget
            return Ok(());
        }
        let case = texts::case(bytes);
        match runner.decide(&case) {
            Ok((classes, nt)) => {
                acc.ok(&case.text, nt, &classes, || json!({"class": format!("{:?}", case.class), "sub": case.sub, "text": case.text, "derives": case.derives}));
                Ok(())
            }
            Err((f, sig)) => {
                if runner.tolerate.iter().any(|t| *t == sig) {
                    *runner.excluded_known.entry(sig).or_insert(0) += 1;
                    return Ok(());
                }
                if sig.ends_with(":hang") {
                    // never shrink a hang (every step would cost the full budget): record it as it is
                    if pending.len() < 3 {
                        pending.push(json!({"property": "C15", "kind": "compile", "class": format!("{:?}", case.class), "sub": case.sub, "text": case.text,
                            "derives": case.derives, "expect": case.expect, "signature": sig, "message": f.msg, "expected": f.expected, "observed": f.observed}));
                    }
                    return Ok(());
                }
                Err((f.clone(), json!({"property": "C15", "kind": "compile", "class": format!("{:?}", case.class), "sub": case.sub, "text": case.text,
                    "derives": case.derives, "expect": case.expect, "signature": sig, "message": f.msg, "expected": f.expected, "observed": f.observed})))
            }
        }
    });
    acc.violations.append(&mut pending);
    acc.extra.insert("excluded_known".into(), json!(runner.excluded_known));
    acc.extra.insert("max_nesting_generated".into(), json!(texts::MAX_NESTING));
    acc.write(out);
}

fn one(runner: &mut Runner, case: &Case, acc: &mut Acc) {
    match runner.decide(case) {
        Ok((classes, nt)) => acc.ok(&case.text, nt, &classes, || json!({"class": format!("{:?}", case.class), "sub": case.sub, "text": case.text})),
        Err((f, sig)) => {
            if runner.tolerate.iter().any(|t| *t == sig) {
                *runner.excluded_known.entry(sig).or_insert(0) += 1;
            } else {
                acc.violation(json!({"property": "C15", "kind": "compile", "class": format!("{:?}", case.class), "sub": case.sub, "text": case.text,
                    "derives": case.derives, "expect": case.expect, "signature": sig, "message": f.msg, "expected": f.expected, "observed": f.observed}));
            }
        }
    }
}

/// probes for listed findings (deep nesting): each is run once; result reported as a violation record
pub fn probe(texts_in: Vec<(String, String)>, out: &str) {
    let mut acc = Acc::new("C15");
    let mut runner = Runner::new(vec![], 120);
    for (name, text) in texts_in {
        let case = Case { class: Class::Nesting, sub: name, text, derives: vec!["Debug".into(), "Clone".into()], expect: Expect::Any };
        one(&mut runner, &case, &mut acc);
    }
    acc.write(out);
}

pub fn replay(rec: &serde_json::Value) -> Option<serde_json::Value> {
    let case = Case {
        class: Class::Arbitrary,
        sub: rec["sub"].as_str().unwrap_or("").to_string(),
        text: rec["text"].as_str()?.to_string(),
        derives: rec["derives"].as_array().map(|a| a.iter().map(|x| x.as_str().unwrap_or("").to_string()).collect()).unwrap_or_else(|| vec!["Debug".into(), "Clone".into()]),
        expect: serde_json::from_value(rec["expect"].clone()).unwrap_or(Expect::Any),
    };
    let mut runner = Runner::new(vec![], 120);
    match runner.decide(&case) {
        Ok(_) => None,
        Err((f, sig)) => Some(json!({"property": "C15", "kind": "compile", "text": case.text, "signature": sig, "message": f.msg})),
    }
}
