//! Engine E2 "front": in-process property loops that need no rustc (C11, C12, C15, C16, C18, runtime half of C04).
use front::{c04rt, c11, c12, c15, c16, c18};

fn arg(args: &[String], name: &str) -> Option<String> {
    args.iter().position(|a| a == name).and_then(|i| args.get(i + 1).cloned())
}

fn main() {
    let args: Vec<String> = std::env::args().collect();
    let cmd = args.get(1).map(|s| s.as_str()).unwrap_or("");
    if cmd == "worker" {
        c15::worker();
        return;
    }
    std::panic::set_hook(Box::new(|_| {}));
    let seed: u64 = arg(&args, "--seed").map(|s| s.parse().unwrap()).unwrap_or(1);
    let cases: u32 = arg(&args, "--cases").map(|s| s.parse().unwrap()).unwrap_or(1000);
    let out = arg(&args, "--out").unwrap_or_else(|| "/dev/null".into());
    match cmd {
        "c11" => c11::run(seed, cases, &out),
        "c12" => c12::run(seed, cases, &out),
        "c15" => {
            let tol: Vec<String> = arg(&args, "--tolerate").map(|s| s.split(',').filter(|x| !x.is_empty()).map(|x| x.to_string()).collect()).unwrap_or_default();
            let hang: u64 = arg(&args, "--hang-secs").map(|s| s.parse().unwrap()).unwrap_or(120);
            c15::run(seed, cases, &out, tol, hang)
        }
        "c15-probe" => {
            // --nest kind:depth,kind:depth
            let list = arg(&args, "--nest").unwrap_or_default();
            let mut texts = vec![];
            for item in list.split(',').filter(|x| !x.is_empty()) {
                let mut it = item.split(':');
                let k: usize = it.next().unwrap().parse().unwrap();
                let d: usize = it.next().unwrap().parse().unwrap();
                texts.push((format!("kind{k} depth{d}"), verif_core::texts::nesting_text(k, d)));
            }
            c15::probe(texts, &out)
        }
        "c18" => c18::run(seed, cases, &out, &arg(&args, "--workdir").expect("--workdir")),
        "c04rt" => c04rt::run(seed, cases, &out),
        "c16-gen" => c16::gen(seed, cases, &arg(&args, "--dir").expect("--dir"), arg(&args, "--repo").as_deref()),
        "c16-history" => c16::history(seed, cases, &arg(&args, "--dir").expect("--dir"), &arg(&args, "--out").expect("--out")),
        "codegen" => c16::codegen(&args),
        "buildscript" => c16::buildscript(&args),
        "exit-on-error" => c16::exit_on_error(&args),
        "texts" => c16::texts(seed, cases, &arg(&args, "--dir").expect("--dir")),
        "replay" => {
            let rec: serde_json::Value = serde_json::from_str(&std::fs::read_to_string(&args[2]).unwrap()).unwrap();
            let prop = rec["property"].as_str().unwrap_or("").to_string();
            let kind = rec["kind"].as_str().unwrap_or("");
            let v = match (prop.as_str(), kind) {
                ("C11", _) => c11::replay(&rec),
                ("C12", _) => c12::replay(&rec),
                ("C15", "compile") => c15::replay(&rec),
                ("C16", "history") => c16::replay_history(&rec),
                ("C18", _) => c18::replay(&rec, &arg(&args, "--workdir").unwrap_or_else(|| "/tmp".into())),
                ("C04", "runtime") => c04rt::replay(&rec),
                _ => {
                    eprintln!("front replay: unsupported record");
                    std::process::exit(2);
                }
            };
            match v {
                Some(v) => {
                    println!("{}", v);
                    std::process::exit(1)
                }
                None => std::process::exit(0),
            }
        }
        _ => {
            eprintln!("usage: front <c11|c12|c15|c18|c04rt|c16-gen|codegen|buildscript|exit-on-error|texts|worker|replay> ...");
            std::process::exit(2);
        }
    }
}
