fn main() {}
